(** Liveness of the closed system of [Model/Net.v] (duplicate-packets mode off): for every file,
    block size and window size the transfer completes when no datagram is disturbed
    ([cosim_perfect]), when any one DATA datagram is lost ([cosim_data_drop]) and when any one ACK
    is lost ([cosim_ack_drop]; if it was the very last ACK the receiver holds the complete file
    and the sender gives up - RFC 1350's exception).  Time-outs happen at quiescence only. *)
From Coq Require Import ZArith Lia ZifyBool ZifyNat ZifyN.
From Tftp Require Import Base.Prelude Model.Types Model.Consts Model.Codec Model.Window Model.Worker Model.Spec
  Model.Server Model.Net Proofs.ListAux Proofs.CodecP Proofs.SpecP Proofs.WindowP Proofs.SendP Proofs.RecvP Proofs.NetP
  Proofs.CosimP.
Local Open Scope N_scope.
Ltac Zify.zify_post_hook ::= Z.div_mod_to_equations.

(** [x = 1], kept behind a name so that arithmetic tactics do not pick the hypothesis up where it is not needed. *)
Definition rep_one (x : N) : Prop := x = 1.

Section Live.
  Variables (sc : scfg) (rc : rcfg) (F : bytes).
  Hypotheses (Hwf : wf_params (s_blk sc) (s_ws sc))
             (Hblk : r_blk rc = s_blk sc) (Hws : r_ws rc = s_ws sc)
             (Hck : s_check sc = false)
             (Hsf : s_fails sc = []) (Hrf : r_fails rc = [])
             (Hsrep : rep_one (s_rep sc)) (Hrrep : rep_one (r_rep rc))
             (Htmo : 0 < s_tmo sc).

  Local Notation blk := (s_blk sc).
  Local Notation ws := (s_ws sc).
  Local Notation nb := (nblk (s_blk sc) F).

  Lemma Hwfr' : wf_params (r_blk rc) (r_ws rc).
  Proof. rewrite Hblk, Hws. exact Hwf. Qed.

  (** The DATA datagrams of blocks [k, k+n). *)
  Fixpoint datas (k : N) (n : nat) : list bytes :=
    match n with
    | O => []
    | S n' => data_dgram blk F k :: datas (k + 1) n'
    end.

  Lemma datas_app : forall n m k, datas k (n + m) = datas k n ++ datas (k + N.of_nat n) m.
  Proof.
    intros n. induction n as [|n IH]; intros m k.
    - cbn [datas app Nat.add]. f_equal. lia.
    - cbn [datas app Nat.add]. rewrite IH. f_equal. f_equal. f_equal. lia.
  Qed.

  Lemma datas_length : forall n k, length (datas k n) = n.
  Proof. intros n. induction n as [|n IH]; intros k; cbn [datas length]; auto. Qed.

  Lemma window_tx_datas : forall n a,
    sent_bytes (window_tx 1 a (chunks_from blk F a n)) = datas a n.
  Proof.
    intros n. induction n as [|n IH]; intros a; cbn [chunks_from window_tx datas]; [reflexivity|].
    unfold sent_bytes in *. cbn [repeat app filter s_failed negb map s_pk]. rewrite IH. reflexivity.
  Qed.

  (** * The receiver, one datagram at a time *)

  (** Running, [c] blocks accepted, [j] of them still buffered, the file so far is the sender's. *)
  Definition RS (hist : list ev) (st : rstate) (c j : N) : Prop :=
    RInv rc hist st /\ r_phase st = RRun /\ r_cnt st = c /\ lenN (w_elems (r_w st)) = j /\
    concat (accepted (r_blk rc) 0 hist) = takeN (c * blk) F.

  Lemma r_ack_one : forall st next st' out, r_ack rc st next = (st', out) ->
    acked_bytes out = [encode (Ack (r_bn st))] /\ r_phase st' = next /\ r_bn st' = r_bn st /\
    r_w st' = r_w st /\ r_cnt st' = r_cnt st /\ r_retry st' = r_retry st.
  Proof.
    intros st next st' out H. unfold r_ack in H. rewrite Hrf, (Hrrep : r_rep rc = 1), send_packet_nofail in H.
    cbn [N.to_nat Pos.to_nat Pos.iter_op Nat.add repeat] in H. inversion H; subst.
    cbn [r_phase r_bn r_w r_cnt r_retry]. repeat split; reflexivity.
  Qed.

  Lemma receive_data : forall k d,
    receive (r_blk rc) (EvDgram d (data_dgram blk F k)) = RPacket (Data (k mod 65536) (chunk blk F k)).
  Proof. intros k d. rewrite Hblk. apply receive_data_dgram. Qed.

  (** The next block in sequence. *)
  Lemma recv_in_seq : forall hist st c j, RS hist st c j -> c + 1 <= nb ->
    let e := EvDgram 0 (data_dgram blk F (c + 1)) in
    exists st' out, recv_step rc st e = (st', out) /\
      if (c + 1 =? nb) || (j + 1 =? ws) then
        acked_bytes out = [ack_dgram (c + 1)] /\
        (if c + 1 =? nb then r_phase st' = RDone OutOk /\ written_bytes (w_file (r_w st')) = F
         else RS (hist ++ [e]) st' (c + 1) 0)
      else out = [] /\ RS (hist ++ [e]) st' (c + 1) (j + 1).
  Proof.
    intros hist st c j (Hi & Hp & Hc & Hj & Hacc) Hle e.
    pose proof (proj1 Hwf) as Hb. pose proof Hwfr' as Hwr.
    pose proof (receive_data (c + 1) 0) as Hr. fold e in Hr.
    pose proof Hi as (A & B & C & D & E & G & G2 & I & J & K).
    assert (Hseq : (c + 1) mod 65536 = wadd16 (r_bn st) 1) by (unfold wadd16; rewrite E, Hc; lia).
    destruct (recv_step rc st e) as [st1 out] eqn:E1.
    destruct (recv_step_spec _ _ _ _ _ _ Hwr Hi Hp E1) as [Hi1 _].
    assert (Hacc1 : accepted (r_blk rc) 0 (hist ++ [e]) = accepted (r_blk rc) 0 hist ++ [chunk blk F (c + 1)]).
    { rewrite accepted_snoc. unfold accepts. rewrite (I Hp), Hr, N.add_0_l, <- D, Hc. rewrite N.eqb_refl. reflexivity. }
    assert (Hacc2 : concat (accepted (r_blk rc) 0 (hist ++ [e])) = takeN ((c + 1) * blk) F).
    { rewrite Hacc1, concat_app, Hacc. cbn [concat]. rewrite app_nil_r.
      replace (c * blk) with ((c + 1 - 1) * blk) by (f_equal; lia). apply chunk_append. lia. }
    rewrite (step_data_in rc hist st e _ _ Hwr Hi Hp Hr Hseq) in E1. cbv zeta in E1.
    rewrite Hj, Hws in E1. exists st1, out. split; [reflexivity|].
    destruct (N.eqb_spec (c + 1) nb) as [Hlast|Hnot].
    - (* the final block *)
      cbn [orb]. pose proof (chunk_last_short blk F Hb) as Hs. rewrite <- Hlast in Hs.
      rewrite Hblk in E1.
      destruct (N.ltb_spec (lenN (chunk blk F (c + 1))) blk); [|lia]. cbn [orb] in E1.
      destruct (r_ack_one _ _ _ _ E1) as (O1 & O2 & O3 & O4 & O5 & O6). cbn [r_bn] in O1.
      split; [exact O1|]. split; [exact O2|].
      destruct Hi1 as (_ & _ & _ & _ & _ & _ & _ & _ & J1 & _). rewrite O4 in J1 |- *. cbn [r_w w_elems concat w_file] in J1 |- *.
      rewrite app_nil_r in J1. unfold written_bytes in *. cbn [w_file] in *. rewrite J1, Hacc2, Hlast. apply takeN_all.
      assert (Hnn : ~ (nblk blk F < nblk blk F)) by lia. rewrite lt_nblk_iff in Hnn by assumption. lia.
    - (* a full block *)
      assert (Hfull : lenN (chunk blk F (c + 1)) = blk) by (apply chunk_full; [assumption|lia|lia]).
      rewrite Hblk in E1.
      destruct (N.ltb_spec (lenN (chunk blk F (c + 1))) blk); [lia|]. cbn [orb] in E1 |- *.
      destruct (N.eqb_spec (j + 1) ws) as [Hfl|Hnf].
      + destruct (r_ack_one _ _ _ _ E1) as (O1 & O2 & O3 & O4 & O5 & O6). cbn [r_bn r_cnt] in O1, O5.
        split; [exact O1|]. unfold RS. split; [exact Hi1|]. split; [exact O2|]. split; [rewrite O5, Hc; reflexivity|].
        split; [rewrite O4; reflexivity|exact Hacc2].
      + inversion E1; subst st1 out. split; [reflexivity|]. unfold RS. split; [exact Hi1|].
        cbn [r_phase r_cnt r_w w_elems]. split; [reflexivity|]. split; [rewrite Hc; reflexivity|].
        split; [rewrite lenN_app, Hj; reflexivity|exact Hacc2].
  Qed.

  (** A block that is not the next one: ignored while blocks are buffered, answered with the
      last ACK again when nothing is. *)
  Lemma recv_out_seq : forall hist st c j k, RS hist st c j -> k mod 65536 <> (c + 1) mod 65536 ->
    let e := EvDgram 0 (data_dgram blk F k) in
    exists st' out, recv_step rc st e = (st', out) /\ RS (hist ++ [e]) st' c j /\
      acked_bytes out = if j =? 0 then [ack_dgram c] else [].
  Proof.
    intros hist st c j k (Hi & Hp & Hc & Hj & Hacc) Hne e. pose proof Hwfr' as Hwr.
    pose proof (receive_data k 0) as Hr. fold e in Hr.
    pose proof Hi as (A & B & C & D & E & G & G2 & I & J & K).
    assert (Hn : k mod 65536 <> wadd16 (r_bn st) 1) by (unfold wadd16; rewrite E, Hc; lia).
    destruct (recv_out_of_sequence rc st e _ _ Hp Hr Hn) as (st' & out & E1 & F1 & F2 & F3 & F4 & F5 & F6 & F7).
    exists st', out. split; [exact E1|].
    destruct (recv_step_spec _ _ _ _ _ _ Hwr Hi Hp E1) as [Hi1 _].
    assert (Hacc1 : accepted (r_blk rc) 0 (hist ++ [e]) = accepted (r_blk rc) 0 hist).
    { rewrite accepted_snoc. unfold accepts. rewrite (I Hp), Hr, N.add_0_l, <- D, Hc.
      destruct (N.eqb_spec (k mod 65536) ((c + 1) mod 65536)); [contradiction|]. apply app_nil_r. }
    destruct (N.eqb_spec j 0) as [Hz|Hnz].
    - (* nothing buffered: the last ACK again *)
      assert (Hnil : w_elems (r_w st) = []) by (apply lenN_0_nil; lia).
      unfold recv_step in E1. rewrite Hp, Hr in E1.
      destruct (N.eqb_spec (k mod 65536) (wadd16 (r_bn st) 1)); [contradiction|].
      rewrite (proj2 (w_is_empty_iff _) Hnil) in E1.
      destruct (r_ack_one _ _ _ _ E1) as (O1 & O2 & O3 & O4 & O5 & O6).
      split; [|rewrite O1, E, Hc; reflexivity].
      unfold RS. split; [exact Hi1|]. split; [exact O2|]. split; [rewrite O5; exact Hc|].
      split; [rewrite O4; exact Hj|rewrite Hacc1; exact Hacc].
    - assert (Hne2 : w_elems (r_w st) <> []) by (intros Z; rewrite Z in Hj; cbn in Hj; lia).
      destruct (F6 Hne2) as [-> ->]. split; [|reflexivity].
      unfold RS. split; [exact Hi1|]. split; [exact Hp|]. split; [exact Hc|]. split; [exact Hj|rewrite Hacc1; exact Hacc].
  Qed.

  (** * The sender, one event at a time *)

  Definition wlen (st : sstate) : N := lenN (w_elems (s_w st)).

  (** In the window whose first block is [a + 1], the whole window sent, the timer just started. *)
  Definition SS (st : sstate) (a r : N) : Prop :=
    SInv sc F st /\ s_phase st = SInWindow /\ tight sc st /\ s_abs st = a + 1 /\ s_since st = 0 /\ s_retry st = r.

  Lemma SS_len : forall st a r, SS st a r -> a < nb /\ wlen st = N.min ws (nb - a) /\ 1 <= wlen st.
  Proof.
    intros st a r ((Hc & _ & Hne) & Hp & Ht & Ha & _). specialize (Hne Hp).
    destruct Hc as (A & B & C & D & E & G & I & J & K & L). unfold wlen.
    assert (lenN (w_elems (s_w st)) <> 0) by (intros Z; apply lenN_0_nil in Z; congruence).
    destruct Ht as [Ht|Ht].
    - destruct (s_filled st); lia.
    - rewrite Ht in K. lia.
  Qed.

  Lemma SS_window : forall st a r, SS st a r ->
    sent_bytes (window_tx 1 (s_abs st) (w_elems (s_w st))) = datas (a + 1) (N.to_nat (wlen st)).
  Proof.
    intros st a r ((Hc & _) & _ & _ & Ha & _). destruct Hc as (_ & _ & _ & _ & _ & _ & I & _).
    rewrite I, Ha. unfold wlen, lenN. rewrite Nat2N.id. apply window_tx_datas.
  Qed.

  Lemma inner_top_fires : forall st, SCore sc F st -> s_tmo sc <= s_since st ->
    s_inner_top sc st =
      (mk_sstate (s_bn st) (s_w st) (s_filled st) (s_retry st) 0 (s_nsent st + 1 * lenN (w_elems (s_w st)))
                 (s_phase st) (s_abs st),
       window_tx 1 (s_abs st) (w_elems (s_w st))).
  Proof.
    intros st Hc Ht. unfold s_inner_top. destruct (N.leb_spec (s_tmo sc) (s_since st)); [|lia].
    destruct Hc as (_ & _ & _ & _ & Hbn & _). rewrite Hsf, (Hsrep : s_rep sc = 1), Hbn, send_window_nofail. reflexivity.
  Qed.

  Lemma outer_top_out : forall st st' out, SCore sc F st ->
    (s_filled st = true -> lenN (w_elems (s_w st)) < ws) ->
    (s_filled st = false -> w_elems (s_w st) <> []) ->
    s_outer_top sc st = (st', out) ->
    SS st' (s_abs st - 1) 0 /\ out = window_tx 1 (s_abs st') (w_elems (s_w st')).
  Proof.
    intros st st' out Hc Hlt Hne H.
    destruct (outer_top_tight sc F st st' out Hwf Hsf Hc Hlt Hne H) as (Hi & Hp & Ht & Ha).
    assert (Habs : 1 <= s_abs st) by (destruct Hc as (_ & _ & _ & D & _); exact D).
    assert (X : s_since st' = 0 /\ s_retry st' = 0 /\ out = window_tx 1 (s_abs st') (w_elems (s_w st'))).
    { unfold s_outer_top in H. destruct (s_filled st) eqn:Hf.
      - destruct (fill_send _ _ _ Hwf Hc Hf) as (w' & full & Fl & Hcore & _). rewrite Fl in H.
        rewrite inner_top_fires in H by (try apply Hcore; try exact max_retries_pos; cbn [s_since]; lia).
        inversion H; subst. cbn [s_since s_retry s_abs s_w]. repeat split; reflexivity.
      - rewrite inner_top_fires in H.
        + inversion H; subst. cbn [s_since s_retry s_abs s_w]. repeat split; reflexivity.
        + eapply SCore_ext; [..|exact Hc]; try reflexivity; try exact max_retries_pos. cbn [s_filled]. symmetry. exact Hf.
        + cbn [s_since]. lia. }
    destruct X as (X1 & X2 & X3). split; [|exact X3].
    unfold SS. split; [exact Hi|]. split; [exact Hp|]. split; [exact Ht|]. split; [rewrite Ha; lia|]. split; assumption.
  Qed.

  (** The ACK of the whole window: the transfer ends, or the next window goes out. *)
  Lemma send_ack_window : forall st a r, SS st a r ->
    let e := EvDgram 0 (ack_dgram (a + wlen st)) in
    exists st' out, send_step sc st e = (st', out) /\
      if a + wlen st =? nb then out = [] /\ s_phase st' = SDone OutOk
      else SS st' (a + wlen st) 0 /\ sent_bytes out = datas (a + wlen st + 1) (N.to_nat (wlen st')).
  Proof.
    intros st a r Hss e. pose proof (SS_len _ _ _ Hss) as (Ha & Hlen & Hpos).
    destruct Hss as (Hi & Hp & Ht & Habs & Hsince & Hretry). unfold wlen in *.
    pose proof Hi as [Hc [_ Hne]]. specialize (Hne Hp).
    pose proof Hc as (A & B & C & D & E & G & I & J & K & L).
    set (len := lenN (w_elems (s_w st))) in *.
    pose proof (receive_ack_dgram (a + len) 0) as Hr. fold e in Hr.
    assert (Hd : wsub16 ((a + len) mod 65536) (s_bn st) = len - 1).
    { rewrite E. destruct Hwf as (_ & _ & Hw). rewrite (wsub16_in_window (s_abs st) (a + len) len) by lia. lia. }
    destruct (step_ack_in sc F st e _ Hwf Hi Hp Hr ltac:(rewrite Hd; lia)) as (w' & Hrm & Hel & Hc2 & Hstep).
    rewrite Hd in *. replace (len - 1 + 1) with len in * by lia.
    assert (Hemp : w_is_empty w' = true).
    { apply w_is_empty_iff. apply lenN_0_nil. rewrite Hel, lenN_dropN. fold len. lia. }
    rewrite Hstep, Hemp, andb_true_r.
    destruct (s_filled st) eqn:Hf; cbn [negb].
    - (* more to send *)
      destruct (N.eqb_spec (a + len) nb) as [Hx|_]; [lia|].
      match goal with |- exists st' out, s_outer_top sc ?x = _ /\ _ => set (st2 := x) in * end.
      destruct (s_outer_top sc st2) as [st3 out] eqn:Eo. exists st3, out. split; [reflexivity|].
      destruct (outer_top_out st2 st3 out Hc2) as [Hss3 Hout]; try exact Eo.
      + intros _. unfold st2. cbn [s_w]. apply w_is_empty_iff in Hemp. rewrite Hemp. cbn. destruct Hwf as (_ & ? & _). lia.
      + unfold st2. cbn [s_filled]. discriminate.
      + replace (s_abs st2 - 1) with (a + len) in Hss3 by (unfold st2; cbn [s_abs]; lia).
        split; [exact Hss3|]. rewrite Hout. rewrite (SS_window _ _ _ Hss3). reflexivity.
    - (* that was the final block *)
      destruct (N.eqb_spec (a + len) nb) as [_|Hx]; [|lia].
      eexists. eexists. split; [reflexivity|]. split; reflexivity.
  Qed.

  (** An ACK for the block just before the window (a repeated ACK): nothing happens. *)
  Lemma send_stale : forall st a r, SS st a r ->
    exists st', send_step sc st (EvDgram 0 (ack_dgram a)) = (st', []) /\ SS st' a r /\ wlen st' = wlen st.
  Proof.
    intros st a r Hss. pose proof (SS_len _ _ _ Hss) as (Ha & Hlen & Hpos).
    destruct Hss as (Hi & Hp & Ht & Habs & Hsince & Hretry).
    pose proof (receive_ack_dgram a 0) as Hr.
    pose proof Hi as [(A & B & C & D & E & G & I & J & K & L) _].
    assert (Hout : ~ (wsub16 (a mod 65536) (s_bn st) < lenN (w_elems (s_w st)))).
    { rewrite E, Habs. unfold wsub16. unfold wlen in *. destruct Hwf as (_ & _ & Hw). lia. }
    exists (with_since st 0). split.
    - apply (stale_ack_is_inert sc F st _ _ Hwf Hi Hp Hr Hout). cbn [ev_delay]. lia.
    - split; [|reflexivity]. unfold SS. cbn [with_since s_phase s_abs s_since s_retry].
      split; [apply with_since_inv; exact Hi|]. split; [exact Hp|]. split; [exact Ht|]. split; [exact Habs|]. split; [lia|exact Hretry].
  Qed.

  (** The time-out: the whole window again, one more failed attempt on the count. *)
  Lemma send_retx : forall st a r, SS st a r -> r + 1 < max_retries ->
    exists st' out, send_step sc st (EvFail (s_tmo sc)) = (st', out) /\ SS st' a (r + 1) /\ wlen st' = wlen st /\
      sent_bytes out = datas (a + 1) (N.to_nat (wlen st)).
  Proof.
    intros st a r Hss Hr. pose proof (SS_window _ _ _ Hss) as Hwin.
    destruct Hss as (Hi & Hp & Ht & Habs & Hsince & Hretry).
    rewrite step_failed_attempt by (auto; exact I). cbn [ev_delay].
    destruct (N.eqb_spec (s_retry st + 1) max_retries) as [Eq|Ne]; [lia|].
    pose proof Hi as [Hc [Hq Hn]].
    rewrite inner_top_fires.
    - eexists. eexists. split; [reflexivity|]. cbn [s_abs s_w]. split; [|split; [reflexivity|exact Hwin]].
      unfold SS. cbn [s_phase s_abs s_since s_retry]. split.
      + split; [|split; [intros X; discriminate|intros _; apply Hn; exact Hp]].
        eapply SCore_ext; [..|exact Hc]; try reflexivity. cbn [s_retry]. lia.
      + split; [reflexivity|]. split; [exact Ht|]. split; [exact Habs|]. split; [reflexivity|lia].
    - eapply SCore_ext; [..|exact Hc]; try reflexivity. cbn [s_retry]. lia.
    - cbn [s_since]. lia.
  Qed.

  (** * The closed system *)
  Section Pair.
  Variables (f_sr f_rs : list (N * fault)).
  Local Notation step := (pair_step sc rc f_sr f_rs).
  Local Notation run := (pair_run sc rc f_sr f_rs).

  Lemma run_stuck : forall b p, step p = None -> run b p = p.
  Proof. intros b p H. destruct b; cbn [pair_run]; [reflexivity|rewrite H; reflexivity]. Qed.

  Lemma run_add : forall a b p, run (a + b) p = run b (run a p).
  Proof.
    intros a. induction a as [|a IH]; intros b p; cbn [Nat.add pair_run]; [reflexivity|].
    destruct (step p) as [p'|] eqn:E; [apply IH|]. symmetry. apply run_stuck. exact E.
  Qed.

  Definition clean (fs : list (N * fault)) (lo hi : N) : Prop :=
    forall i, lo <= i < hi -> fault_at fs i = NfDeliver.

  Lemma chan_puts_app : forall fs a b c, chan_puts fs c (a ++ b) = chan_puts fs (chan_puts fs c a) b.
  Proof. intros. unfold chan_puts. apply fold_left_app. Qed.

  Lemma chan_put_clean : forall fs d q n, fault_at fs n = NfDeliver ->
    chan_put fs (mk_chan q None n) d = mk_chan (q ++ [d]) None (n + 1).
  Proof. intros fs d q n H. unfold chan_put. cbn [ch_n ch_held ch_q]. rewrite H. reflexivity. Qed.

  Lemma chan_puts_cons : forall fs d ds c, chan_puts fs c (d :: ds) = chan_puts fs (chan_put fs c d) ds.
  Proof. reflexivity. Qed.

  Lemma chan_puts_clean : forall fs ds q n, clean fs n (n + lenN ds) ->
    chan_puts fs (mk_chan q None n) ds = mk_chan (q ++ ds) None (n + lenN ds).
  Proof.
    intros fs ds. induction ds as [|d ds IH]; intros q n Hc.
    - unfold chan_puts. cbn [fold_left]. rewrite app_nil_r, lenN_nil, N.add_0_r. reflexivity.
    - rewrite chan_puts_cons, chan_put_clean by (apply Hc; rewrite lenN_cons; lia). rewrite IH.
      + rewrite <- app_assoc, lenN_cons. cbn [app]. f_equal. lia.
      + intros i Hi. apply Hc. rewrite lenN_cons. lia.
  Qed.

  Lemma chan_puts_drop : forall fs d q n, fault_at fs n = NfDrop ->
    chan_puts fs (mk_chan q None n) [d] = mk_chan q None (n + 1).
  Proof. intros fs d q n H. unfold chan_puts. cbn [fold_left]. unfold chan_put. cbn [ch_n ch_held ch_q]. rewrite H. reflexivity. Qed.

  (** ** Single steps *)

  Lemma step_recv : forall s r d q h n rs, r_phase r = RRun ->
    step (mk_pair s r (mk_chan (d :: q) h n) rs) =
      Some (mk_pair s (fst (recv_step rc r (EvDgram 0 d))) (mk_chan q h n)
                    (chan_puts f_rs rs (acked_bytes (snd (recv_step rc r (EvDgram 0 d)))))).
  Proof.
    intros s r d q h n rs Hp. unfold pair_step. cbn [p_sr p_r p_s p_rs ch_q ch_held ch_n]. unfold r_running. rewrite Hp.
    destruct (recv_step rc r (EvDgram 0 d)) as [r' out]. reflexivity.
  Qed.

  Lemma step_send : forall s r h n d q h' n', s_phase s = SInWindow ->
    step (mk_pair s r (mk_chan [] h n) (mk_chan (d :: q) h' n')) =
      Some (mk_pair (fst (send_step sc s (EvDgram 0 d))) r
                    (chan_puts f_sr (mk_chan [] h n) (sent_bytes (snd (send_step sc s (EvDgram 0 d)))))
                    (mk_chan q h' n')).
  Proof.
    intros s r h n d q h' n' Hp. unfold pair_step. cbn [p_sr p_r p_s p_rs ch_q ch_held ch_n]. unfold s_running. rewrite Hp.
    destruct (send_step sc s (EvDgram 0 d)) as [s' out]. reflexivity.
  Qed.

  Lemma step_tmo : forall s r h n h' n', s_phase s = SInWindow ->
    step (mk_pair s r (mk_chan [] h n) (mk_chan [] h' n')) =
      Some (mk_pair (fst (send_step sc s (EvFail (s_tmo sc)))) r
                    (chan_puts f_sr (mk_chan [] h n) (sent_bytes (snd (send_step sc s (EvFail (s_tmo sc))))))
                    (mk_chan [] h' n')).
  Proof.
    intros s r h n h' n' Hp. unfold pair_step. cbn [p_sr p_r p_s p_rs ch_q ch_held ch_n]. unfold s_running. rewrite Hp.
    destruct (send_step sc s (EvFail (s_tmo sc))) as [s' out]. reflexivity.
  Qed.

  (** ** The receiver drains its queue *)

  Lemma drain_in_seq : forall n hist r c j s q h nn rs, RS hist r c j -> (1 <= n)%nat ->
    c + N.of_nat n <= nb -> j + N.of_nat n <= ws ->
    (c + N.of_nat n = nb \/ j + N.of_nat n = ws) ->
    exists r', run n (mk_pair s r (mk_chan (datas (c + 1) n ++ q) h nn) rs) =
                 mk_pair s r' (mk_chan q h nn) (chan_puts f_rs rs [ack_dgram (c + N.of_nat n)]) /\
      if c + N.of_nat n =? nb then r_phase r' = RDone OutOk /\ written_bytes (w_file (r_w r')) = F
      else exists hist', RS hist' r' (c + N.of_nat n) 0.
  Proof.
    intros n. induction n as [|n IH]; intros hist r c j s q h nn rs Hrs Hn Hc Hj Hlast; [lia|].
    cbn [datas app pair_run]. rewrite step_recv by apply Hrs.
    destruct (recv_in_seq hist r c j Hrs ltac:(lia)) as (st' & out & E & Hres). rewrite E. cbn [fst snd].
    destruct n as [|n].
    - (* the last one: flushed and acknowledged *)
      cbn [datas app pair_run]. replace (c + N.of_nat 1) with (c + 1) in * by lia.
      assert (Hfl : (c + 1 =? nb) || (j + 1 =? ws) = true) by (destruct Hlast; lia).
      rewrite Hfl in Hres. destruct Hres as [Hout Hst]. rewrite Hout. exists st'. split; [reflexivity|].
      destruct (c + 1 =? nb); [exact Hst|eexists; exact Hst].
    - assert (Hfl : (c + 1 =? nb) || (j + 1 =? ws) = false) by lia.
      rewrite Hfl in Hres. destruct Hres as [-> Hst]. cbn [acked_bytes sent_bytes map filter].
      change (chan_puts f_rs rs []) with rs.
      destruct (IH _ st' (c + 1) (j + 1) s q h nn rs Hst ltac:(lia) ltac:(lia) ltac:(lia) ltac:(lia)) as (r' & Hrun & Hfin).
      replace (c + 1 + N.of_nat (S n)) with (c + N.of_nat (S (S n))) in * by lia.
      exists r'. split; [exact Hrun|exact Hfin].
  Qed.

  Lemma drain_out_seq : forall n k hist r c j s q h nn rs, RS hist r c j ->
    (forall i, (i < n)%nat -> (k + N.of_nat i) mod 65536 <> (c + 1) mod 65536) ->
    exists r' hist', run n (mk_pair s r (mk_chan (datas k n ++ q) h nn) rs) =
        mk_pair s r' (mk_chan q h nn) (chan_puts f_rs rs (if j =? 0 then repeat (ack_dgram c) n else [])) /\
      RS hist' r' c j.
  Proof.
    intros n. induction n as [|n IH]; intros k hist r c j s q h nn rs Hrs Hne.
    - cbn [datas app pair_run repeat]. exists r, hist. split; [|exact Hrs]. destruct (j =? 0); reflexivity.
    - cbn [datas app pair_run]. rewrite step_recv by apply Hrs.
      destruct (recv_out_seq hist r c j k Hrs) as (st' & out & E & Hst & Hout).
      { specialize (Hne O ltac:(lia)). replace (k + N.of_nat 0) with k in Hne by lia. exact Hne. }
      rewrite E. cbn [fst snd]. rewrite Hout.
      destruct (IH (k + 1) _ st' c j s q h nn (chan_puts f_rs rs (if j =? 0 then [ack_dgram c] else [])) Hst) as (r' & hist' & Hrun & Hfin).
      { intros i Hi. specialize (Hne (S i) ltac:(lia)). replace (k + 1 + N.of_nat i) with (k + N.of_nat (S i)) by lia. exact Hne. }
      exists r', hist'. split; [|exact Hfin]. rewrite Hrun. f_equal.
      destruct (j =? 0); [|reflexivity]. cbn [repeat]. reflexivity.
  Qed.

  (** ** The sender discards repeated ACKs *)

  Lemma drain_stale : forall n s a r0 rr h nn q h' n', SS s a r0 ->
    exists s', run n (mk_pair s rr (mk_chan [] h nn) (mk_chan (repeat (ack_dgram a) n ++ q) h' n')) =
                 mk_pair s' rr (mk_chan [] h nn) (mk_chan q h' n') /\ SS s' a r0 /\ wlen s' = wlen s.
  Proof.
    intros n. induction n as [|n IH]; intros s a r0 rr h nn q h' n' Hss.
    - cbn [repeat app pair_run]. exists s. split; [reflexivity|]. split; [exact Hss|reflexivity].
    - cbn [repeat app pair_run]. rewrite step_send by apply Hss.
      destruct (send_stale s a r0 Hss) as (s1 & E & Hss1 & Hl1). rewrite E. cbn [fst snd sent_bytes map filter].
      change (chan_puts f_sr (mk_chan [] h nn) []) with (mk_chan [] h nn).
      destruct (IH s1 a r0 rr h nn q h' n' Hss1) as (s' & Hrun & Hss' & Hl').
      exists s'. split; [exact Hrun|]. split; [exact Hss'|]. rewrite Hl'. exact Hl1.
  Qed.

  (** ** One round *)

  (** First half: the receiver takes the window (ignoring the blocks it already holds) and
      acknowledges it; then the sender discards the repeated ACKs that were queued before. *)
  Lemma half_a : forall s r a r0 j0 stale hist n1 n2 tail h2, SS s a r0 -> RS hist r (a + j0) j0 -> j0 < wlen s ->
    chan_puts f_rs (mk_chan (repeat (ack_dgram a) stale) None n2) [ack_dgram (a + wlen s)] =
      mk_chan (repeat (ack_dgram a) stale ++ tail) h2 (n2 + 1) ->
    exists s' r',
      run (N.to_nat (wlen s) + stale) (mk_pair s r (mk_chan (datas (a + 1) (N.to_nat (wlen s))) None n1)
                                               (mk_chan (repeat (ack_dgram a) stale) None n2)) =
        mk_pair s' r' (mk_chan [] None n1) (mk_chan tail h2 (n2 + 1)) /\
      SS s' a r0 /\ wlen s' = wlen s /\
      if a + wlen s =? nb then r_phase r' = RDone OutOk /\ written_bytes (w_file (r_w r')) = F
      else exists hist', RS hist' r' (a + wlen s) 0.
  Proof.
    intros s r a r0 j0 stale hist n1 n2 tail h2 Hss Hrs Hj Hput.
    pose proof (SS_len _ _ _ Hss) as (Ha & Hlen & Hpos). set (m := wlen s) in *.
    set (j0' := N.to_nat j0). set (n' := N.to_nat (m - j0)).
    replace (N.to_nat m + stale)%nat with (j0' + (n' + stale))%nat by (unfold j0', n'; lia).
    replace (N.to_nat m) with (j0' + n')%nat by (unfold j0', n'; lia).
    rewrite datas_app, !run_add.
    (* the blocks already held are ignored *)
    destruct (drain_out_seq j0' (a + 1) hist r (a + j0) j0 s (datas (a + 1 + N.of_nat j0') n') None n1
                (mk_chan (repeat (ack_dgram a) stale) None n2) Hrs) as (r1 & hist1 & Hrun1 & Hrs1).
    { intros i Hi. unfold j0' in Hi. destruct Hwf as (_ & _ & Hw). lia. }
    rewrite Hrun1.
    replace (if j0 =? 0 then repeat (ack_dgram (a + j0)) j0' else []) with (@nil bytes)
      by (destruct (N.eqb_spec j0 0) as [->|]; reflexivity).
    change (chan_puts f_rs (mk_chan (repeat (ack_dgram a) stale) None n2) []) with (mk_chan (repeat (ack_dgram a) stale) None n2).
    (* the rest is accepted, the last one flushes the window and is acknowledged *)
    replace (a + 1 + N.of_nat j0') with (a + j0 + 1) by (unfold j0'; lia).
    rewrite <- (app_nil_r (datas (a + j0 + 1) n')).
    destruct (drain_in_seq n' hist1 r1 (a + j0) j0 s [] None n1 (mk_chan (repeat (ack_dgram a) stale) None n2) Hrs1)
      as (r2 & Hrun2 & Hfin2); try (unfold n'; lia).
    rewrite Hrun2. replace (a + j0 + N.of_nat n') with (a + m) in * by (unfold n'; lia).
    rewrite Hput.
    (* the sender reads the repeated ACKs *)
    destruct (drain_stale stale s a r0 r2 None n1 tail h2 (n2 + 1) Hss) as (s' & Hrun3 & Hss' & Hl').
    rewrite Hrun3. exists s', r2. split; [reflexivity|]. split; [exact Hss'|]. split; [exact Hl'|exact Hfin2].
  Qed.

  Definition Final (p : pair_state) : Prop :=
    r_phase (p_r p) = RDone OutOk /\ written_bytes (w_file (r_w (p_r p))) = F /\ s_phase (p_s p) = SDone OutOk.

  (** The synchronisation point of a round: the sender has just sent the window after block [a];
      the receiver holds the blocks up to [a + j0], [j0] of them still buffered; [stale] repeated
      ACKs of block [a] are still queued. *)
  Definition sync_state (s : sstate) (r : rstate) (a n1 n2 : N) (stale : nat) : pair_state :=
    mk_pair s r (mk_chan (datas (a + 1) (N.to_nat (wlen s))) None n1) (mk_chan (repeat (ack_dgram a) stale) None n2).

  (** The state right after the sender handed the window after block [a] to the network
      (what the faults make of it is still inside [chan_puts]). *)
  Definition emit_state (s : sstate) (r : rstate) (a n1 n2 : N) (stale : nat) : pair_state :=
    mk_pair s r (chan_puts f_sr (mk_chan [] None n1) (datas (a + 1) (N.to_nat (wlen s))))
            (mk_chan (repeat (ack_dgram a) stale) None n2).

  Lemma emit_clean : forall s r a n1 n2 stale, clean f_sr n1 (n1 + wlen s) ->
    emit_state s r a n1 n2 stale = sync_state s r a (n1 + wlen s) n2 stale.
  Proof.
    intros s r a n1 n2 stale Hc. unfold emit_state, sync_state. rewrite chan_puts_clean.
    - cbn [app]. unfold lenN. rewrite datas_length, N2Nat.id. reflexivity.
    - unfold lenN. rewrite datas_length, N2Nat.id. exact Hc.
  Qed.

  (** A whole round whose ACK is delivered: the transfer is over, or the next window has been emitted. *)
  Lemma round_gen : forall s r a r0 j0 stale hist n1 n2, SS s a r0 -> RS hist r (a + j0) j0 -> j0 < wlen s ->
    fault_at f_rs n2 = NfDeliver ->
    exists fuel p', run fuel (sync_state s r a n1 n2 stale) = p' /\
      if a + wlen s =? nb then Final p'
      else exists s' r' hist', p' = emit_state s' r' (a + wlen s) n1 (n2 + 1) 0 /\
             SS s' (a + wlen s) 0 /\ RS hist' r' (a + wlen s) 0.
  Proof.
    intros s r a r0 j0 stale hist n1 n2 Hss Hrs Hj Hf2. unfold sync_state.
    destruct (half_a s r a r0 j0 stale hist n1 n2 [ack_dgram (a + wlen s)] None Hss Hrs Hj) as (s1 & r1 & Hrun1 & Hss1 & Hl1 & Hfin1).
    { rewrite chan_puts_clean; [reflexivity|]. intros i Hi. rewrite lenN_cons, lenN_nil in Hi. replace i with n2 by lia. exact Hf2. }
    exists (N.to_nat (wlen s) + stale + 1)%nat. eexists. split; [reflexivity|].
    rewrite run_add, Hrun1. cbn [pair_run]. rewrite step_send by apply Hss1.
    rewrite <- Hl1. destruct (send_ack_window s1 a r0 Hss1) as (s2 & out & E & Hres). rewrite E. cbn [fst snd].
    rewrite Hl1 in *. destruct (N.eqb_spec (a + wlen s) nb) as [Hlast|Hnot].
    - destruct Hres as [-> Hd]. cbn [sent_bytes map filter].
      change (chan_puts f_sr (mk_chan [] None n1) []) with (mk_chan [] None n1).
      unfold Final. cbn [p_r p_s]. destruct Hfin1 as [Hp Hfile]. repeat split; assumption.
    - destruct Hres as [Hss2 Hout]. destruct Hfin1 as [hist' Hrs']. rewrite Hout.
      exists s2, r1, hist'. split; [reflexivity|split; assumption].
  Qed.

  Definition clean_from (fs : list (N * fault)) (lo : N) : Prop := forall i, lo <= i -> fault_at fs i = NfDeliver.

  (** From a synchronisation point on, with undisturbed channels, the transfer completes. *)
  Lemma perfect_from_sync : forall k s r a r0 j0 stale hist n1 n2, nb - a <= N.of_nat k ->
    SS s a r0 -> RS hist r (a + j0) j0 -> j0 < wlen s -> clean_from f_sr n1 -> clean_from f_rs n2 ->
    exists fuel, Final (run fuel (sync_state s r a n1 n2 stale)).
  Proof.
    intros k. induction k as [|k IH]; intros s r a r0 j0 stale hist n1 n2 Hk Hss Hrs Hj Hc1 Hc2;
      pose proof (SS_len _ _ _ Hss) as (Ha & Hlen & Hpos); [lia|].
    destruct (round_gen s r a r0 j0 stale hist n1 n2 Hss Hrs Hj) as (fuel & p' & Hrun & Hres).
    { apply Hc2. lia. }
    destruct (N.eqb_spec (a + wlen s) nb) as [Hlast|Hnot].
    - exists fuel. rewrite Hrun. exact Hres.
    - destruct Hres as (s' & r' & hist' & -> & Hss' & Hrs').
      pose proof (SS_len _ _ _ Hss') as (_ & _ & Hpos').
      rewrite emit_clean in Hrun by (intros i Hi; apply Hc1; lia).
      destruct (IH s' r' (a + wlen s) 0 0 O hist' (n1 + wlen s') (n2 + 1)) as (fuel2 & Hfin); try assumption; try lia.
      + replace (a + wlen s + 0) with (a + wlen s) by lia. exact Hrs'.
      + intros i Hi. apply Hc1. lia.
      + intros i Hi. apply Hc2. lia.
      + exists (fuel + fuel2)%nat. rewrite run_add, Hrun. exact Hfin.
  Qed.

  (** ** The first window *)

  Lemma init_emit : exists s0, pair_init sc rc f_sr F = emit_state s0 (recv_init rc) 0 0 0 0 /\ SS s0 0 0.
  Proof.
    unfold pair_init. destruct (send_init sc F) as [s0 out0] eqn:E0. unfold send_init in E0. rewrite Hck in E0.
    set (st0 := mk_sstate 1 (window_new (s_ws sc) (s_blk sc) (file_for_read F)) true 0 0 0 SInWindow 1) in *.
    assert (Hc0 : SCore sc F st0).
    { unfold SCore, st0. cbn [s_w s_bn s_abs s_filled s_retry window_new w_elems w_size w_chunk w_file
                              file_for_read f_mode f_rest length chunks_from].
      rewrite lenN_nil. destruct Hwf as (Hb & Hw1 & Hw2). pose proof (nblk_pos (s_blk sc) F).
      repeat split; try reflexivity; try lia. }
    destruct (outer_top_out st0 s0 out0 Hc0) as [Hss Hout]; try exact E0.
    - intros _. unfold st0. cbn [s_w window_new w_elems]. rewrite lenN_nil. destruct Hwf as (_ & ? & _). lia.
    - discriminate.
    - change (s_abs st0 - 1) with 0 in Hss. exists s0. split; [|exact Hss].
      unfold emit_state, chan_empty. cbn [repeat]. rewrite Hout, (SS_window _ _ _ Hss). reflexivity.
  Qed.

  Lemma recv_init_RS : RS [] (recv_init rc) 0 0.
  Proof.
    unfold RS. split; [apply recv_init_inv; exact Hwfr'|]. repeat split.
  Qed.

  (** C04 / C14, closed system, liveness without interference: for every file, block size and
      window size the download / upload completes on both sides with exactly the file. *)
  Theorem cosim_perfect_gen : clean_from f_sr 0 -> clean_from f_rs 0 ->
    exists fuel, Final (run fuel (pair_init sc rc f_sr F)).
  Proof.
    intros Hc1 Hc2. destruct init_emit as (s0 & -> & Hss). pose proof (SS_len _ _ _ Hss) as (_ & _ & Hpos).
    rewrite emit_clean by (intros i Hi; apply Hc1; lia).
    apply (perfect_from_sync (N.to_nat nb) s0 (recv_init rc) 0 0 0 O [] _ _); try assumption; try lia.
    - exact recv_init_RS.
    - intros i Hi. apply Hc1. lia.
  Qed.

  (** ** One lost DATA datagram *)

  (** In-sequence blocks that neither fill the window nor end the file are buffered silently. *)
  Lemma drain_buffer : forall n hist r c j s q h nn rs, RS hist r c j ->
    c + N.of_nat n < nb -> j + N.of_nat n < ws ->
    exists r' hist', run n (mk_pair s r (mk_chan (datas (c + 1) n ++ q) h nn) rs) =
                 mk_pair s r' (mk_chan q h nn) rs /\ RS hist' r' (c + N.of_nat n) (j + N.of_nat n).
  Proof.
    intros n. induction n as [|n IH]; intros hist r c j s q h nn rs Hrs Hc Hj.
    - cbn [datas app pair_run]. exists r, hist. split; [reflexivity|].
      replace (c + N.of_nat 0) with c by lia. replace (j + N.of_nat 0) with j by lia. exact Hrs.
    - cbn [datas app pair_run]. rewrite step_recv by apply Hrs.
      destruct (recv_in_seq hist r c j Hrs ltac:(lia)) as (st' & out & E & Hres). rewrite E. cbn [fst snd].
      assert (Hfl : (c + 1 =? nb) || (j + 1 =? ws) = false) by lia.
      rewrite Hfl in Hres. destruct Hres as [-> Hst]. cbn [acked_bytes sent_bytes map filter].
      change (chan_puts f_rs rs []) with rs.
      destruct (IH _ st' (c + 1) (j + 1) s q h nn rs Hst ltac:(lia) ltac:(lia)) as (r' & hist' & Hrun & Hfin).
      exists r', hist'. split; [exact Hrun|].
      replace (c + N.of_nat (S n)) with (c + 1 + N.of_nat n) by lia.
      replace (j + N.of_nat (S n)) with (j + 1 + N.of_nat n) by lia. exact Hfin.
  Qed.

  (** A window emitted with its [g]-th datagram (counted from 0) lost. *)
  Lemma emit_gap : forall s r a n1 n2 stale g, N.of_nat g < wlen s ->
    clean f_sr n1 (n1 + N.of_nat g) -> fault_at f_sr (n1 + N.of_nat g) = NfDrop ->
    clean f_sr (n1 + N.of_nat g + 1) (n1 + wlen s) ->
    emit_state s r a n1 n2 stale =
      mk_pair s r (mk_chan (datas (a + 1) g ++ datas (a + N.of_nat g + 2) (N.to_nat (wlen s) - g - 1)) None (n1 + wlen s))
              (mk_chan (repeat (ack_dgram a) stale) None n2).
  Proof.
    intros s r a n1 n2 stale g Hg Hc1 Hd Hc2. unfold emit_state. f_equal.
    replace (N.to_nat (wlen s)) with (g + (1 + (N.to_nat (wlen s) - g - 1)))%nat at 1 by lia.
    rewrite !datas_app, !chan_puts_app. rewrite chan_puts_clean by (unfold lenN; rewrite datas_length; exact Hc1).
    unfold lenN at 1. rewrite datas_length. cbn [datas app]. rewrite chan_puts_drop by exact Hd.
    rewrite chan_puts_clean.
    - unfold lenN. rewrite datas_length. f_equal; [f_equal; f_equal; lia|lia].
    - unfold lenN. rewrite datas_length. intros i Hi. apply Hc2. lia.
  Qed.

  Lemma one_retry : 0 + 1 < max_retries.
  Proof. reflexivity. Qed.

  (** Recovery: the receiver buffers what came before the gap and ignores (or re-acknowledges)
      what came after it; everything falls silent; the sender's timer fires and the whole window
      goes out again - a synchronisation point at which the receiver already holds [g] blocks. *)
  Lemma gap_recovery : forall s r a stale hist n1 n2 g, SS s a 0 -> RS hist r a 0 -> N.of_nat g < wlen s ->
    clean f_sr n1 (n1 + wlen s) -> clean_from f_rs n2 ->
    exists fuel s' r' hist' n2',
      run fuel (mk_pair s r (mk_chan (datas (a + 1) g ++ datas (a + N.of_nat g + 2) (N.to_nat (wlen s) - g - 1)) None n1)
                        (mk_chan (repeat (ack_dgram a) stale) None n2)) =
        sync_state s' r' a (n1 + wlen s') n2' 0 /\
      SS s' a 1 /\ RS hist' r' (a + N.of_nat g) (N.of_nat g) /\ N.of_nat g < wlen s' /\ n2 <= n2'.
  Proof.
    intros s r a stale hist n1 n2 g Hss Hrs Hg Hc1 Hc2.
    pose proof (SS_len _ _ _ Hss) as (Ha & Hlen & Hpos). set (m := wlen s) in *.
    set (rest := (N.to_nat m - g - 1)%nat).
    (* 1. the blocks before the gap are buffered *)
    destruct (drain_buffer g hist r a 0 s (datas (a + N.of_nat g + 2) rest) None n1
                (mk_chan (repeat (ack_dgram a) stale) None n2) Hrs ltac:(lia) ltac:(lia)) as (r1 & hist1 & Hrun1 & Hrs1).
    replace (0 + N.of_nat g) with (N.of_nat g) in Hrs1 by lia.
    (* 2. the blocks after the gap are out of sequence *)
    destruct (drain_out_seq rest (a + N.of_nat g + 2) hist1 r1 (a + N.of_nat g) (N.of_nat g) s [] None n1
                (mk_chan (repeat (ack_dgram a) stale) None n2) Hrs1) as (r2 & hist2 & Hrun2 & Hrs2).
    { intros i Hi. unfold rest in Hi. destruct Hwf as (_ & _ & Hw). lia. }
    rewrite app_nil_r in Hrun2.
    set (extra := if N.of_nat g =? 0 then rest else O).
    assert (Hq : chan_puts f_rs (mk_chan (repeat (ack_dgram a) stale) None n2)
                   (if N.of_nat g =? 0 then repeat (ack_dgram (a + N.of_nat g)) rest else []) =
                 mk_chan (repeat (ack_dgram a) (stale + extra)) None (n2 + N.of_nat extra)).
    { unfold extra. destruct (N.eqb_spec (N.of_nat g) 0) as [Hz|Hnz].
      - rewrite chan_puts_clean by (intros i Hi; apply Hc2; lia).
        replace (a + N.of_nat g) with a by lia. rewrite repeat_app. unfold lenN. rewrite repeat_length. reflexivity.
      - change (chan_puts f_rs ?c []) with c. rewrite Nat.add_0_r, N.add_0_r. reflexivity. }
    rewrite Hq in Hrun2.
    (* 3. the sender reads the repeated ACKs *)
    destruct (drain_stale (stale + extra) s a 0 r2 None n1 [] None (n2 + N.of_nat extra) Hss) as (s3 & Hrun3 & Hss3 & Hl3).
    rewrite app_nil_r in Hrun3.
    (* 4. silence: the timer fires, the window goes out again *)
    destruct (send_retx s3 a 0 Hss3 one_retry) as (s4 & out & E4 & Hss4 & Hl4 & Hout4).
    exists (g + rest + (stale + extra) + 1)%nat, s4, r2, hist2, (n2 + N.of_nat extra).
    split; [|split; [exact Hss4|split; [exact Hrs2|split; [rewrite Hl4, Hl3; exact Hg|lia]]]].
    rewrite (run_add (g + rest + (stale + extra)) 1), (run_add (g + rest) (stale + extra)), (run_add g rest).
    rewrite Hrun1, Hrun2, Hrun3. cbn [pair_run]. rewrite step_tmo by apply Hss3. rewrite E4. cbn [fst snd].
    rewrite Hout4. unfold sync_state.
    rewrite chan_puts_clean by (intros i Hi; apply Hc1; unfold lenN in Hi; rewrite datas_length, N2Nat.id in Hi; rewrite Hl3 in Hi; fold m; lia).
    cbn [app repeat]. unfold lenN. rewrite datas_length, N2Nat.id, Hl4. reflexivity.
  Qed.

  (** Exactly one datagram of a direction is lost: the one with index [i]. *)
  Definition one_drop (fs : list (N * fault)) (i : N) : Prop :=
    fault_at fs i = NfDrop /\ forall k, k <> i -> fault_at fs k = NfDeliver.

  Lemma data_drop_from_emit : forall k s r a hist n1 n2 i, nb - a <= N.of_nat k ->
    SS s a 0 -> RS hist r a 0 -> one_drop f_sr i -> clean_from f_rs n2 -> n1 <= i ->
    exists fuel, Final (run fuel (emit_state s r a n1 n2 0)).
  Proof.
    intros k. induction k as [|k IH]; intros s r a hist n1 n2 i Hk Hss Hrs [Hd Hother] Hc2 Hi;
      pose proof (SS_len _ _ _ Hss) as (Ha & Hlen & Hpos); [lia|].
    destruct (N.lt_ge_cases i (n1 + wlen s)) as [Hin|Hout].
    - (* the loss hits this window *)
      set (g := N.to_nat (i - n1)).
      rewrite (emit_gap s r a n1 n2 O g) by
        (try (unfold g; lia); try (replace (n1 + N.of_nat g) with i by (unfold g; lia); exact Hd);
         intros j Hj; apply Hother; unfold g in Hj; lia).
      destruct (gap_recovery s r a O hist (n1 + wlen s) n2 g Hss Hrs ltac:(unfold g; lia)) as
        (fuel1 & s' & r' & hist' & n2' & Hrun1 & Hss' & Hrs' & Hg' & Hn2'); try assumption.
      { intros j Hj. apply Hother. lia. }
      destruct (perfect_from_sync (S k) s' r' a 1 (N.of_nat g) O hist' (n1 + wlen s + wlen s') n2' Hk Hss' Hrs' Hg')
        as (fuel2 & Hfin).
      { intros j Hj. apply Hother. lia. }
      { intros j Hj. apply Hc2. lia. }
      exists (fuel1 + fuel2)%nat. rewrite run_add, Hrun1. exact Hfin.
    - (* not yet: an undisturbed round *)
      rewrite emit_clean by (intros j Hj; apply Hother; lia).
      replace a with (a + 0) in Hrs by lia.
      destruct (round_gen s r a 0 0 O hist (n1 + wlen s) n2 Hss Hrs ltac:(lia) ltac:(apply Hc2; lia))
        as (fuel1 & p' & Hrun1 & Hres).
      destruct (N.eqb_spec (a + wlen s) nb) as [Hlast|Hnot].
      + exists fuel1. rewrite Hrun1. exact Hres.
      + destruct Hres as (s' & r' & hist' & -> & Hss' & Hrs').
        destruct (IH s' r' (a + wlen s) hist' (n1 + wlen s) (n2 + 1) i ltac:(lia) Hss' Hrs' (conj Hd Hother))
          as (fuel2 & Hfin); [intros j Hj; apply Hc2; lia|lia|].
        exists (fuel1 + fuel2)%nat. rewrite run_add, Hrun1. exact Hfin.
  Qed.

  (** ** Several lost DATA datagrams, no two of them close together *)

  (** The indices of the lost datagrams, in increasing order, any two more than [d] apart, none below [lo]. *)
  Fixpoint spaced (d lo : N) (is : list N) : Prop :=
    match is with
    | [] => True
    | i :: r => lo <= i /\ spaced d (i + d + 1) r
    end.

  Lemma spaced_weaken : forall d is lo lo', lo' <= lo -> spaced d lo is -> spaced d lo' is.
  Proof. intros d is. destruct is as [|i r]; intros lo lo' H Hs; cbn [spaced] in *; [exact I|]. destruct Hs. split; [lia|assumption]. Qed.

  Lemma spaced_ge : forall d is lo k, spaced d lo is -> In k is -> lo <= k.
  Proof.
    intros d is. induction is as [|i r IH]; intros lo k Hs Hin; [contradiction|]. cbn [spaced] in Hs. destruct Hs as [Hlo Hr].
    destruct Hin as [->|Hin]; [exact Hlo|]. specialize (IH _ _ Hr Hin). lia.
  Qed.

  (** From index [lo] on, exactly the datagrams with an index in [is] are lost. *)
  Definition drops_from (fs : list (N * fault)) (lo : N) (is : list N) : Prop :=
    forall k, lo <= k -> (In k is -> fault_at fs k = NfDrop) /\ (~ In k is -> fault_at fs k = NfDeliver).

  Lemma data_drops_from_emit : forall k is s r a hist n1 n2, nb - a <= N.of_nat k ->
    SS s a 0 -> RS hist r a 0 -> drops_from f_sr n1 is -> spaced (2 * ws) n1 is -> clean_from f_rs n2 ->
    exists fuel, Final (run fuel (emit_state s r a n1 n2 0)).
  Proof.
    intros k. induction k as [|k IH]; intros is s r a hist n1 n2 Hk Hss Hrs Hd Hsp Hc2;
      pose proof (SS_len _ _ _ Hss) as (Ha & Hlen & Hpos); [lia|].
    assert (Hrs0 : RS hist r (a + 0) 0) by (replace (a + 0) with a by lia; exact Hrs).
    pose proof Hwf as (_ & _ & Hw).
    (* is the next loss inside this window? *)
    assert (Hcase : (exists i rest, is = i :: rest /\ i < n1 + wlen s) \/ (forall j, In j is -> n1 + wlen s <= j)).
    { destruct is as [|i rest]; [right; intros j []|]. destruct (N.lt_ge_cases i (n1 + wlen s)) as [Hin|Hout].
      - left. exists i, rest. split; [reflexivity|exact Hin].
      - right. intros j Hj. cbn [spaced] in Hsp. destruct Hsp as [_ Hr]. destruct Hj as [<-|Hj]; [exact Hout|].
        pose proof (spaced_ge _ _ _ _ Hr Hj). lia. }
    destruct Hcase as [(i & rest & -> & Hin)|Hfar].
    - cbn [spaced] in Hsp. destruct Hsp as [Hlo Hrest]. set (g := N.to_nat (i - n1)).
      assert (Hnot : forall j, n1 <= j -> j <> i -> j < i + 2 * ws + 1 -> fault_at f_sr j = NfDeliver).
      { intros j Hge Hne Hj. apply (proj2 (Hd j Hge)). intros [E|Hjr]; [congruence|]. pose proof (spaced_ge _ _ _ _ Hrest Hjr). lia. }
      rewrite (emit_gap s r a n1 n2 O g) by
        (try (unfold g; lia); try (replace (n1 + N.of_nat g) with i by (unfold g; lia); apply (proj1 (Hd i Hlo)); left; reflexivity);
         intros j Hj; apply Hnot; unfold g in Hj; lia).
      destruct (gap_recovery s r a O hist (n1 + wlen s) n2 g Hss Hrs ltac:(unfold g; lia)) as
        (fuel1 & s' & r' & hist' & n2' & Hrun1 & Hss' & Hrs' & Hg' & Hn2'); try assumption.
      { intros j Hj. apply Hnot; lia. }
      pose proof (SS_len _ _ _ Hss') as (_ & Hlen' & _).
      (* the window goes through on the second attempt; the later losses are still ahead *)
      destruct (round_gen s' r' a 1 (N.of_nat g) O hist' (n1 + wlen s + wlen s') n2' Hss' Hrs' Hg' ltac:(apply Hc2; lia))
        as (fuel2 & p' & Hrun2 & Hres).
      destruct (N.eqb_spec (a + wlen s') nb) as [Hlast|Hnot2].
      + exists (fuel1 + fuel2)%nat. rewrite run_add, Hrun1, Hrun2. exact Hres.
      + destruct Hres as (s2 & r2 & hist2 & -> & Hss2 & Hrs2).
        destruct (IH rest s2 r2 (a + wlen s') hist2 (n1 + wlen s + wlen s') (n2' + 1) ltac:(lia) Hss2 Hrs2) as (fuel3 & Hfin).
        * intros j Hge. assert (Hji : j <> i) by lia. destruct (Hd j ltac:(lia)) as [D1 D2]. split.
          -- intros Hj. apply D1. right. exact Hj.
          -- intros Hj. apply D2. intros [E|Hjr]; [congruence|contradiction].
        * eapply spaced_weaken; [|exact Hrest]. lia.
        * intros j Hj. apply Hc2. lia.
        * exists (fuel1 + (fuel2 + fuel3))%nat. rewrite run_add, Hrun1, run_add, Hrun2. exact Hfin.
    - rewrite emit_clean by (intros j Hj; apply (proj2 (Hd j ltac:(lia))); intros Hjn; specialize (Hfar _ Hjn); lia).
      destruct (round_gen s r a 0 0 O hist (n1 + wlen s) n2 Hss Hrs0 ltac:(lia) ltac:(apply Hc2; lia))
        as (fuel1 & p' & Hrun1 & Hres).
      destruct (N.eqb_spec (a + wlen s) nb) as [Hlast|Hnot].
      + exists fuel1. rewrite Hrun1. exact Hres.
      + destruct Hres as (s' & r' & hist' & -> & Hss' & Hrs').
        destruct (IH is s' r' (a + wlen s) hist' (n1 + wlen s) (n2 + 1) ltac:(lia) Hss' Hrs') as (fuel2 & Hfin).
        * intros j Hge. apply Hd. lia.
        * destruct is as [|i rest]; [exact I|]. cbn [spaced] in *. destruct Hsp as [_ Hr]. split; [apply Hfar; left; reflexivity|exact Hr].
        * intros j Hj. apply Hc2. lia.
        * exists (fuel1 + fuel2)%nat. rewrite run_add, Hrun1. exact Hfin.
  Qed.

  (** ** One lost ACK *)

  Definition FinalR (p : pair_state) : Prop :=
    r_phase (p_r p) = RDone OutOk /\ written_bytes (w_file (r_w (p_r p))) = F.

  Lemma ack_drop_from_emit : forall k s r a hist n1 n2 i, nb - a <= N.of_nat k ->
    SS s a 0 -> RS hist r a 0 -> one_drop f_rs i -> clean_from f_sr n1 -> n2 <= i ->
    exists fuel, FinalR (run fuel (emit_state s r a n1 n2 0)) /\
      (s_phase (p_s (run fuel (emit_state s r a n1 n2 0))) = SDone OutOk \/
       ch_n (p_rs (run fuel (emit_state s r a n1 n2 0))) = i + 1).
  Proof.
    intros k. induction k as [|k IH]; intros s r a hist n1 n2 i Hk Hss Hrs [Hd Hother] Hc1 Hi;
      pose proof (SS_len _ _ _ Hss) as (Ha & Hlen & Hpos); [lia|].
    rewrite emit_clean by (intros j Hj; apply Hc1; lia).
    assert (Hrs0 : RS hist r (a + 0) 0) by (replace (a + 0) with a by lia; exact Hrs).
    unfold sync_state. set (m := wlen s) in *.
    destruct (N.eq_dec i n2) as [->|Hne].
    - (* this round's ACK is the one that is lost *)
      destruct (half_a s r a 0 0 O hist (n1 + m) n2 [] None Hss Hrs0 ltac:(lia)) as (s1 & r1 & Hrun1 & Hss1 & Hl1 & Hfin1).
      { cbn [repeat app]. apply chan_puts_drop. exact Hd. }
      fold m in Hrun1, Hfin1, Hl1. cbn [repeat] in Hrun1 |- *.
      destruct (N.eqb_spec (a + m) nb) as [Hlast|Hnot].
      + (* it was the last ACK of the transfer: the receiver is done, holding the file *)
        exists (N.to_nat m + 0)%nat. rewrite Hrun1. cbn [p_r p_s p_rs ch_n]. split; [exact Hfin1|right; reflexivity].
      + destruct Hfin1 as [hist1 Hrs1].
        (* silence; the timer fires; the window goes out again *)
        destruct (send_retx s1 a 0 Hss1 one_retry) as (s2 & out & E2 & Hss2 & Hl2 & Hout2).
        (* the receiver, holding everything already, acknowledges every block again *)
        replace (a + m) with (a + m + 0) in Hrs1 by lia.
        destruct (drain_out_seq (N.to_nat m) (a + 1) hist1 r1 (a + m + 0) 0 s2 [] None (n1 + m + m)
                    (mk_chan [] None (n2 + 1)) ltac:(replace (a + m + 0) with (a + m) in * by lia; exact Hrs1))
          as (r2 & hist2 & Hrun3 & Hrs2).
        { intros j Hj. destruct Hwf as (_ & _ & Hw). lia. }
        rewrite app_nil_r in Hrun3. change (0 =? 0) with true in Hrun3. cbv iota in Hrun3.
        rewrite chan_puts_clean in Hrun3 by (intros j Hj; apply Hother; lia).
        cbn [app] in Hrun3. unfold lenN in Hrun3. rewrite repeat_length, N2Nat.id in Hrun3.
        replace (a + m + 0) with (a + m) in * by lia.
        (* the sender takes the first of them and sends the next window *)
        assert (Hrep : repeat (ack_dgram (a + m)) (N.to_nat m) = ack_dgram (a + m) :: repeat (ack_dgram (a + m)) (N.to_nat m - 1)).
        { replace (N.to_nat m) with (S (N.to_nat m - 1)) at 1 by lia. reflexivity. }
        rewrite Hrep in Hrun3.
        assert (Hm2 : wlen s2 = m) by (rewrite Hl2; exact Hl1).
        destruct (send_ack_window s2 a (0 + 1) Hss2) as (s3 & out3 & E3 & Hres3). rewrite Hm2 in E3, Hres3.
        destruct (N.eqb_spec (a + m) nb) as [|_]; [contradiction|]. destruct Hres3 as [Hss3 Hout3].
        pose proof (SS_len _ _ _ Hss3) as (_ & _ & Hpos3).
        destruct (perfect_from_sync k s3 r2 (a + m) 0 0 (N.to_nat m - 1) hist2 (n1 + m + m + wlen s3) (n2 + 1 + m)
                    ltac:(lia) Hss3 ltac:(replace (a + m + 0) with (a + m) by lia; exact Hrs2) ltac:(lia))
          as (fuel4 & Hfin4).
        { intros j Hj. apply Hc1. lia. }
        { intros j Hj. apply Hother. lia. }
        exists (N.to_nat m + 0 + 1 + N.to_nat m + 1 + fuel4)%nat.
        assert (Hrun : run (N.to_nat m + 0 + 1 + N.to_nat m + 1)
                         (mk_pair s r (mk_chan (datas (a + 1) (N.to_nat m)) None (n1 + m)) (mk_chan [] None n2)) =
                       sync_state s3 r2 (a + m) (n1 + m + m + wlen s3) (n2 + 1 + m) (N.to_nat m - 1)).
        { rewrite (run_add (N.to_nat m + 0 + 1 + N.to_nat m) 1), (run_add (N.to_nat m + 0 + 1) (N.to_nat m)),
                  (run_add (N.to_nat m + 0) 1), Hrun1.
          cbn [pair_run]. rewrite step_tmo by apply Hss1. rewrite E2. cbn [fst snd]. rewrite Hout2, Hl1.
          rewrite chan_puts_clean by (intros j Hj; apply Hc1; lia). cbn [app]. unfold lenN. rewrite datas_length, N2Nat.id.
          rewrite Hrun3. rewrite step_send by apply Hss2. rewrite E3. cbn [fst snd]. rewrite Hout3.
          rewrite chan_puts_clean by (intros j Hj; apply Hc1; lia). cbn [app]. unfold lenN. rewrite datas_length, N2Nat.id.
          reflexivity. }
        rewrite (run_add (N.to_nat m + 0 + 1 + N.to_nat m + 1) fuel4), Hrun.
        destruct Hfin4 as (Hf1 & Hf2 & Hf3). split; [split; assumption|left; exact Hf3].
    - (* the lost ACK is a later one: an undisturbed round *)
      destruct (round_gen s r a 0 0 O hist (n1 + m) n2 Hss Hrs0 ltac:(lia) ltac:(apply Hother; lia))
        as (fuel1 & p' & Hrun1 & Hres). fold m in Hres. unfold sync_state in Hrun1. fold m in Hrun1.
      destruct (N.eqb_spec (a + m) nb) as [Hlast|Hnot].
      + exists fuel1. rewrite Hrun1. destruct Hres as (Hf1 & Hf2 & Hf3). split; [split; assumption|left; exact Hf3].
      + destruct Hres as (s' & r' & hist' & -> & Hss' & Hrs').
        destruct (IH s' r' (a + m) hist' (n1 + m) (n2 + 1) i ltac:(lia) Hss' Hrs' (conj Hd Hother))
          as (fuel2 & Hfin); [intros j Hj; apply Hc1; lia|lia|].
        exists (fuel1 + fuel2)%nat. rewrite run_add, Hrun1. exact Hfin.
  Qed.

  (** ** Several lost ACKs, no two of them close together *)

  Lemma ack_drops_from_sync : forall k is s r a hist n1 n2 stale, nb - a <= N.of_nat k ->
    SS s a 0 -> RS hist r a 0 -> drops_from f_rs n2 is -> spaced ws n2 is -> clean_from f_sr n1 ->
    exists fuel, FinalR (run fuel (sync_state s r a n1 n2 stale)) /\
      (s_phase (p_s (run fuel (sync_state s r a n1 n2 stale))) = SDone OutOk \/
       In (ch_n (p_rs (run fuel (sync_state s r a n1 n2 stale))) - 1) is).
  Proof.
    intros k. induction k as [|k IH]; intros is s r a hist n1 n2 stale Hk Hss Hrs Hd Hsp Hc1;
      pose proof (SS_len _ _ _ Hss) as (Ha & Hlen & Hpos); [lia|].
    assert (Hrs0 : RS hist r (a + 0) 0) by (replace (a + 0) with a by lia; exact Hrs).
    unfold sync_state. set (m := wlen s) in *. pose proof Hwf as (_ & _ & Hw).
    assert (Hcase : (exists rest, is = n2 :: rest) \/ ~ In n2 is).
    { destruct is as [|i rest]; [right; intros []|]. cbn [spaced] in Hsp. destruct Hsp as [Hlo Hr].
      destruct (N.eq_dec i n2) as [->|Hne]; [left; exists rest; reflexivity|].
      right. intros [E|Hin]; [congruence|]. pose proof (spaced_ge _ _ _ _ Hr Hin). lia. }
    destruct Hcase as [(rest & ->)|Hnotin].
    - (* this round's ACK is lost *)
      cbn [spaced] in Hsp. destruct Hsp as [_ Hrest].
      assert (Hdrop : fault_at f_rs n2 = NfDrop) by (apply (proj1 (Hd n2 ltac:(lia))); left; reflexivity).
      assert (Hnext : forall j, n2 < j -> j < n2 + ws + 1 -> fault_at f_rs j = NfDeliver).
      { intros j H1 H2. apply (proj2 (Hd j ltac:(lia))). intros [E|Hin]; [lia|]. pose proof (spaced_ge _ _ _ _ Hrest Hin). lia. }
      destruct (half_a s r a 0 0 stale hist n1 n2 [] None Hss Hrs0 ltac:(lia)) as (s1 & r1 & Hrun1 & Hss1 & Hl1 & Hfin1).
      { rewrite app_nil_r. apply chan_puts_drop. exact Hdrop. }
      fold m in Hrun1, Hfin1, Hl1.
      destruct (N.eqb_spec (a + m) nb) as [Hlast|Hnot].
      + exists (N.to_nat m + stale)%nat. rewrite Hrun1. cbn [p_r p_s p_rs ch_n]. split; [exact Hfin1|right].
        replace (n2 + 1 - 1) with n2 by lia. left. reflexivity.
      + destruct Hfin1 as [hist1 Hrs1].
        destruct (send_retx s1 a 0 Hss1 one_retry) as (s2 & out & E2 & Hss2 & Hl2 & Hout2).
        replace (a + m) with (a + m + 0) in Hrs1 by lia.
        destruct (drain_out_seq (N.to_nat m) (a + 1) hist1 r1 (a + m + 0) 0 s2 [] None (n1 + m)
                    (mk_chan [] None (n2 + 1)) ltac:(replace (a + m + 0) with (a + m) in * by lia; exact Hrs1))
          as (r2 & hist2 & Hrun3 & Hrs2).
        { intros j Hj. lia. }
        rewrite app_nil_r in Hrun3. change (0 =? 0) with true in Hrun3. cbv iota in Hrun3.
        rewrite chan_puts_clean in Hrun3 by (intros j Hj; unfold lenN in Hj; rewrite repeat_length, N2Nat.id in Hj; apply Hnext; lia).
        cbn [app] in Hrun3. unfold lenN in Hrun3. rewrite repeat_length, N2Nat.id in Hrun3.
        replace (a + m + 0) with (a + m) in * by lia.
        assert (Hrep : repeat (ack_dgram (a + m)) (N.to_nat m) = ack_dgram (a + m) :: repeat (ack_dgram (a + m)) (N.to_nat m - 1)).
        { replace (N.to_nat m) with (S (N.to_nat m - 1)) at 1 by lia. reflexivity. }
        rewrite Hrep in Hrun3.
        assert (Hm2 : wlen s2 = m) by (rewrite Hl2; exact Hl1).
        destruct (send_ack_window s2 a (0 + 1) Hss2) as (s3 & out3 & E3 & Hres3). rewrite Hm2 in E3, Hres3.
        destruct (N.eqb_spec (a + m) nb) as [|_]; [contradiction|]. destruct Hres3 as [Hss3 Hout3].
        pose proof (SS_len _ _ _ Hss3) as (_ & _ & Hpos3).
        destruct (IH rest s3 r2 (a + m) hist2 (n1 + m + wlen s3) (n2 + 1 + m) (N.to_nat m - 1)%nat ltac:(lia) Hss3 Hrs2)
          as (fuel4 & Hfin4 & Hor4).
        * intros j Hge. destruct (Hd j ltac:(lia)) as [D1 D2]. split.
          -- intros Hj. apply D1. right. exact Hj.
          -- intros Hj. apply D2. intros [E|Hjr]; [lia|contradiction].
        * eapply spaced_weaken; [|exact Hrest]. lia.
        * intros j Hj. apply Hc1. lia.
        * assert (Hrun : run (N.to_nat m + stale + 1 + N.to_nat m + 1)
                         (mk_pair s r (mk_chan (datas (a + 1) (N.to_nat m)) None n1) (mk_chan (repeat (ack_dgram a) stale) None n2)) =
                       sync_state s3 r2 (a + m) (n1 + m + wlen s3) (n2 + 1 + m) (N.to_nat m - 1)).
          { rewrite (run_add (N.to_nat m + stale + 1 + N.to_nat m) 1), (run_add (N.to_nat m + stale + 1) (N.to_nat m)),
                    (run_add (N.to_nat m + stale) 1), Hrun1.
            cbn [pair_run]. rewrite step_tmo by apply Hss1. rewrite E2. cbn [fst snd]. rewrite Hout2, Hl1.
            rewrite chan_puts_clean by (intros j Hj; apply Hc1; lia). cbn [app]. unfold lenN. rewrite datas_length, N2Nat.id.
            rewrite Hrun3. rewrite step_send by apply Hss2. rewrite E3. cbn [fst snd]. rewrite Hout3.
            rewrite chan_puts_clean by (intros j Hj; apply Hc1; lia). cbn [app]. unfold lenN. rewrite datas_length, N2Nat.id.
            reflexivity. }
          exists (N.to_nat m + stale + 1 + N.to_nat m + 1 + fuel4)%nat.
          rewrite (run_add (N.to_nat m + stale + 1 + N.to_nat m + 1) fuel4), Hrun. split; [exact Hfin4|].
          destruct Hor4 as [Hok|Hin]; [left; exact Hok|right; right; exact Hin].
    - (* this round's ACK arrives *)
      assert (Hdel : fault_at f_rs n2 = NfDeliver) by (apply (proj2 (Hd n2 ltac:(lia))); exact Hnotin).
      destruct (round_gen s r a 0 0 stale hist n1 n2 Hss Hrs0 ltac:(lia) Hdel) as (fuel1 & p' & Hrun1 & Hres).
      fold m in Hres. unfold sync_state in Hrun1. fold m in Hrun1.
      destruct (N.eqb_spec (a + m) nb) as [Hlast|Hnot].
      + exists fuel1. rewrite Hrun1. destruct Hres as (Hf1 & Hf2 & Hf3). split; [split; assumption|left; exact Hf3].
      + destruct Hres as (s' & r' & hist' & Hp' & Hss' & Hrs').
        pose proof (SS_len _ _ _ Hss') as (_ & _ & Hpos').
        rewrite Hp', emit_clean in Hrun1 by (intros j Hj; apply Hc1; lia).
        destruct (IH is s' r' (a + m) hist' (n1 + wlen s') (n2 + 1) O ltac:(lia) Hss' Hrs') as (fuel2 & Hfin).
        * intros j Hge. apply Hd. lia.
        * destruct is as [|i rest]; [exact I|]. cbn [spaced] in *. destruct Hsp as [Hlo Hr]. split; [|exact Hr].
          destruct (N.eq_dec i n2) as [->|]; [exfalso; apply Hnotin; left; reflexivity|lia].
        * intros j Hj. apply Hc1. lia.
        * exists (fuel1 + fuel2)%nat. rewrite run_add, Hrun1. exact Hfin.
  Qed.

  (** ** One duplicated datagram *)

  Definition one_dup (fs : list (N * fault)) (i : N) : Prop :=
    fault_at fs i = NfDup /\ forall k, k <> i -> fault_at fs k = NfDeliver.

  Lemma chan_puts_dup : forall fs d q n, fault_at fs n = NfDup ->
    chan_puts fs (mk_chan q None n) [d] = mk_chan (q ++ [d; d]) None (n + 1).
  Proof. intros fs d q n H. unfold chan_puts. cbn [fold_left]. unfold chan_put. cbn [ch_n ch_held ch_q]. rewrite H. reflexivity. Qed.

  (** Second half of a round: the sender discards [stale] repeated ACKs of block [a], accepts the
      ACK of the window and sends the next one; [x] further copies of that ACK stay queued. *)
  Lemma half_b : forall s r1 a r0 stale x n1 n2, SS s a r0 ->
    (if a + wlen s =? nb then r_phase r1 = RDone OutOk /\ written_bytes (w_file (r_w r1)) = F
     else exists hist', RS hist' r1 (a + wlen s) 0) ->
    exists p', run (stale + 1)
                 (mk_pair s r1 (mk_chan [] None n1)
                          (mk_chan (repeat (ack_dgram a) stale ++ ack_dgram (a + wlen s) :: repeat (ack_dgram (a + wlen s)) x) None n2)) = p' /\
      if a + wlen s =? nb then Final p'
      else exists s' hist', p' = emit_state s' r1 (a + wlen s) n1 n2 x /\ SS s' (a + wlen s) 0 /\ RS hist' r1 (a + wlen s) 0.
  Proof.
    intros s r1 a r0 stale x n1 n2 Hss Hfin1.
    destruct (drain_stale stale s a r0 r1 None n1 (ack_dgram (a + wlen s) :: repeat (ack_dgram (a + wlen s)) x) None n2 Hss)
      as (s1 & Hrun1 & Hss1 & Hl1).
    eexists. split; [reflexivity|]. rewrite run_add, Hrun1. cbn [pair_run]. rewrite step_send by apply Hss1.
    rewrite <- Hl1. destruct (send_ack_window s1 a r0 Hss1) as (s2 & out & E & Hres). rewrite E. cbn [fst snd].
    rewrite Hl1 in *. destruct (N.eqb_spec (a + wlen s) nb) as [Hlast|Hnot].
    - destruct Hres as [-> Hd]. cbn [sent_bytes map filter].
      change (chan_puts f_sr (mk_chan [] None n1) []) with (mk_chan [] None n1).
      unfold Final. cbn [p_r p_s]. destruct Hfin1 as [Hp Hfile]. repeat split; assumption.
    - destruct Hres as [Hss2 Hout]. destruct Hfin1 as [hist' Hrs']. rewrite Hout.
      exists s2, hist'. split; [reflexivity|split; assumption].
  Qed.

  (** A round whose ACK is duplicated by the network. *)
  Lemma round_ack_dup : forall s r a r0 j0 stale hist n1 n2, SS s a r0 -> RS hist r (a + j0) j0 -> j0 < wlen s ->
    fault_at f_rs n2 = NfDup ->
    exists fuel p', run fuel (sync_state s r a n1 n2 stale) = p' /\
      if a + wlen s =? nb then Final p'
      else exists s' r' hist', p' = emit_state s' r' (a + wlen s) n1 (n2 + 1) 1 /\
             SS s' (a + wlen s) 0 /\ RS hist' r' (a + wlen s) 0.
  Proof.
    intros s r a r0 j0 stale hist n1 n2 Hss Hrs Hj Hf2. unfold sync_state.
    destruct (half_a s r a r0 j0 stale hist n1 n2 [ack_dgram (a + wlen s); ack_dgram (a + wlen s)] None Hss Hrs Hj)
      as (s1 & r1 & Hrun1 & Hss1 & Hl1 & Hfin1).
    { apply chan_puts_dup. exact Hf2. }
    rewrite <- Hl1 in Hfin1, Hrun1.
    assert (Hrun1' : run (N.to_nat (wlen s) + stale)
              (mk_pair s r (mk_chan (datas (a + 1) (N.to_nat (wlen s))) None n1) (mk_chan (repeat (ack_dgram a) stale) None n2)) =
            mk_pair s1 r1 (mk_chan [] None n1)
              (mk_chan (repeat (ack_dgram a) 0 ++ ack_dgram (a + wlen s1) :: repeat (ack_dgram (a + wlen s1)) 1) None (n2 + 1)))
      by (rewrite Hl1 in *; exact Hrun1).
    destruct (half_b s1 r1 a r0 O 1 n1 (n2 + 1) Hss1 Hfin1) as (p' & Hrun2 & Hres).
    exists (N.to_nat (wlen s) + stale + (0 + 1))%nat, p'. split; [rewrite run_add, Hrun1'; exact Hrun2|].
    rewrite Hl1 in Hres. destruct (a + wlen s =? nb); [exact Hres|].
    destruct Hres as (s' & hist' & Hp' & Hss' & Hrs'). exists s', r1, hist'. split; [exact Hp'|split; assumption].
  Qed.

  Lemma ack_dup_from_emit : forall k s r a hist n1 n2 i, nb - a <= N.of_nat k ->
    SS s a 0 -> RS hist r a 0 -> one_dup f_rs i -> clean_from f_sr n1 -> n2 <= i ->
    exists fuel, Final (run fuel (emit_state s r a n1 n2 0)).
  Proof.
    intros k. induction k as [|k IH]; intros s r a hist n1 n2 i Hk Hss Hrs [Hd Hother] Hc1 Hi;
      pose proof (SS_len _ _ _ Hss) as (Ha & Hlen & Hpos); [lia|].
    rewrite emit_clean by (intros j Hj; apply Hc1; lia).
    assert (Hrs0 : RS hist r (a + 0) 0) by (replace (a + 0) with a by lia; exact Hrs).
    destruct (N.eq_dec i n2) as [->|Hne].
    - destruct (round_ack_dup s r a 0 0 O hist (n1 + wlen s) n2 Hss Hrs0 ltac:(lia) Hd) as (fuel1 & p' & Hrun1 & Hres).
      destruct (N.eqb_spec (a + wlen s) nb) as [Hlast|Hnot].
      + exists fuel1. rewrite Hrun1. exact Hres.
      + destruct Hres as (s' & r' & hist' & -> & Hss' & Hrs').
        pose proof (SS_len _ _ _ Hss') as (_ & _ & Hpos').
        rewrite emit_clean in Hrun1 by (intros j Hj; apply Hc1; lia).
        destruct (perfect_from_sync k s' r' (a + wlen s) 0 0 1 hist' (n1 + wlen s + wlen s') (n2 + 1)
                    ltac:(lia) Hss' ltac:(replace (a + wlen s + 0) with (a + wlen s) by lia; exact Hrs') ltac:(lia))
          as (fuel2 & Hfin).
        { intros j Hj. apply Hc1. lia. }
        { intros j Hj. apply Hother. lia. }
        exists (fuel1 + fuel2)%nat. rewrite run_add, Hrun1. exact Hfin.
    - destruct (round_gen s r a 0 0 O hist (n1 + wlen s) n2 Hss Hrs0 ltac:(lia) ltac:(apply Hother; lia))
        as (fuel1 & p' & Hrun1 & Hres).
      destruct (N.eqb_spec (a + wlen s) nb) as [Hlast|Hnot].
      + exists fuel1. rewrite Hrun1. exact Hres.
      + destruct Hres as (s' & r' & hist' & -> & Hss' & Hrs').
        destruct (IH s' r' (a + wlen s) hist' (n1 + wlen s) (n2 + 1) i ltac:(lia) Hss' Hrs' (conj Hd Hother))
          as (fuel2 & Hfin); [intros j Hj; apply Hc1; lia|lia|].
        exists (fuel1 + fuel2)%nat. rewrite run_add, Hrun1. exact Hfin.
  Qed.

  (** *** A duplicated DATA datagram *)

  Lemma emit_dup : forall s r a n1 n2 stale g, N.of_nat g < wlen s ->
    clean f_sr n1 (n1 + N.of_nat g) -> fault_at f_sr (n1 + N.of_nat g) = NfDup ->
    clean f_sr (n1 + N.of_nat g + 1) (n1 + wlen s) ->
    emit_state s r a n1 n2 stale =
      mk_pair s r (mk_chan (datas (a + 1) g ++ data_dgram blk F (a + 1 + N.of_nat g) :: data_dgram blk F (a + 1 + N.of_nat g) ::
                            datas (a + N.of_nat g + 2) (N.to_nat (wlen s) - g - 1)) None (n1 + wlen s))
              (mk_chan (repeat (ack_dgram a) stale) None n2).
  Proof.
    intros s r a n1 n2 stale g Hg Hc1 Hd Hc2. unfold emit_state. f_equal.
    replace (N.to_nat (wlen s)) with (g + (1 + (N.to_nat (wlen s) - g - 1)))%nat at 1 by lia.
    rewrite !datas_app, !chan_puts_app. rewrite chan_puts_clean by (unfold lenN; rewrite datas_length; exact Hc1).
    unfold lenN at 1. rewrite datas_length. cbn [datas app]. rewrite chan_puts_dup by exact Hd.
    rewrite chan_puts_clean.
    - unfold lenN. rewrite datas_length. rewrite <- !app_assoc. cbn [app]. f_equal; [|lia].
      f_equal. f_equal. f_equal. f_equal. lia.
    - unfold lenN. rewrite datas_length. intros i Hi. apply Hc2. lia.
  Qed.

  Lemma step_send_done : forall s r o sr d q h' n', r_phase r = RDone o -> s_phase s = SInWindow ->
    step (mk_pair s r sr (mk_chan (d :: q) h' n')) =
      Some (mk_pair (fst (send_step sc s (EvDgram 0 d))) r
                    (chan_puts f_sr sr (sent_bytes (snd (send_step sc s (EvDgram 0 d)))))
                    (mk_chan q h' n')).
  Proof.
    intros s r o sr d q h' n' Hr Hp. unfold pair_step. cbn [p_sr p_r p_s p_rs ch_q ch_held ch_n].
    unfold r_running, s_running. rewrite Hr, Hp.
    destruct (send_step sc s (EvDgram 0 d)) as [s' out]. destruct (ch_q sr); reflexivity.
  Qed.

  Lemma drain_stale_done : forall n s a r0 rr o sr q h' n', r_phase rr = RDone o -> SS s a r0 ->
    exists s', run n (mk_pair s rr sr (mk_chan (repeat (ack_dgram a) n ++ q) h' n')) =
                 mk_pair s' rr sr (mk_chan q h' n') /\ SS s' a r0 /\ wlen s' = wlen s.
  Proof.
    intros n. induction n as [|n IH]; intros s a r0 rr o sr q h' n' Hr Hss.
    - cbn [repeat app pair_run]. exists s. split; [reflexivity|]. split; [exact Hss|reflexivity].
    - cbn [repeat app pair_run]. rewrite (step_send_done s rr o) by (try exact Hr; apply Hss).
      destruct (send_stale s a r0 Hss) as (s1 & E & Hss1 & Hl1). rewrite E. cbn [fst snd sent_bytes map filter].
      change (chan_puts f_sr sr []) with sr.
      destruct (IH s1 a r0 rr o sr q h' n' Hr Hss1) as (s' & Hrun & Hss' & Hl').
      exists s'. split; [exact Hrun|]. split; [exact Hss'|]. rewrite Hl'. exact Hl1.
  Qed.

  (** The receiver is done; whatever is still queued for it no longer matters: the sender reads its ACK and ends. *)
  Lemma finish_with_leftover : forall s r1 a r0 stale sr n2, SS s a r0 -> a + wlen s = nb ->
    r_phase r1 = RDone OutOk -> written_bytes (w_file (r_w r1)) = F ->
    Final (run (stale + 1) (mk_pair s r1 sr (mk_chan (repeat (ack_dgram a) stale ++ [ack_dgram (a + wlen s)]) None n2))).
  Proof.
    intros s r1 a r0 stale sr n2 Hss Hlast Hr Hfile.
    destruct (drain_stale_done stale s a r0 r1 OutOk sr [ack_dgram (a + wlen s)] None n2 Hr Hss) as (s1 & Hrun1 & Hss1 & Hl1).
    rewrite run_add, Hrun1. cbn [pair_run]. rewrite (step_send_done s1 r1 OutOk) by (try exact Hr; apply Hss1).
    rewrite <- Hl1. destruct (send_ack_window s1 a r0 Hss1) as (s2 & out & E & Hres). rewrite E. cbn [fst snd].
    rewrite Hl1 in Hres. destruct (N.eqb_spec (a + wlen s) nb) as [_|]; [|contradiction].
    destruct Hres as [-> Hd]. unfold Final. cbn [p_r p_s]. repeat split; assumption.
  Qed.

  (** A round whose window reaches the receiver with its [g]-th datagram (from 0) doubled. *)
  Lemma dup_round : forall s r a r0 stale hist n1 n2 g, SS s a r0 -> RS hist r a 0 -> N.of_nat g < wlen s ->
    fault_at f_rs n2 = NfDeliver -> fault_at f_rs (n2 + 1) = NfDeliver ->
    exists fuel p',
      run fuel (mk_pair s r (mk_chan (datas (a + 1) g ++ data_dgram blk F (a + 1 + N.of_nat g) :: data_dgram blk F (a + 1 + N.of_nat g) ::
                                      datas (a + N.of_nat g + 2) (N.to_nat (wlen s) - g - 1)) None n1)
                        (mk_chan (repeat (ack_dgram a) stale) None n2)) = p' /\
      if a + wlen s =? nb then Final p'
      else exists s' r' hist' x n2', p' = emit_state s' r' (a + wlen s) n1 n2' x /\
             SS s' (a + wlen s) 0 /\ RS hist' r' (a + wlen s) 0 /\ n2 < n2'.
  Proof.
    intros s r a r0 stale hist n1 n2 g Hss Hrs Hg Hf2 Hf3.
    pose proof (SS_len _ _ _ Hss) as (Ha & Hlen & Hpos). set (m := wlen s) in *.
    set (rest := (N.to_nat m - g - 1)%nat). set (d := data_dgram blk F (a + 1 + N.of_nat g)).
    assert (Hmws : m <= ws) by lia. pose proof Hwf as (_ & _ & Hw).
    assert (Hclean1 : forall q, chan_puts f_rs (mk_chan q None n2) [ack_dgram (a + m)] = mk_chan (q ++ [ack_dgram (a + m)]) None (n2 + 1)).
    { intros q. rewrite chan_puts_clean; [reflexivity|]. intros i Hi. rewrite lenN_cons, lenN_nil in Hi. replace i with n2 by lia. exact Hf2. }
    destruct (Nat.eq_dec rest 0) as [Hlastblk|Hmid].
    - (* the doubled datagram is the last of the window *)
      replace (datas (a + N.of_nat g + 2) rest) with (@nil bytes) by (rewrite Hlastblk; reflexivity).
      replace (datas (a + 1) g ++ [d; d]) with (datas (a + 1) (N.to_nat m) ++ [d]).
      2: { replace (N.to_nat m) with (g + 1)%nat by (unfold rest in Hlastblk; lia). rewrite datas_app. cbn [datas app].
           rewrite <- app_assoc. cbn [app]. reflexivity. }
      destruct (drain_in_seq (N.to_nat m) hist r a 0 s [d] None n1 (mk_chan (repeat (ack_dgram a) stale) None n2) Hrs)
        as (r1 & Hrun1 & Hfin1); try lia.
      replace (a + N.of_nat (N.to_nat m)) with (a + m) in * by lia. rewrite Hclean1 in Hrun1.
      destruct (N.eqb_spec (a + m) nb) as [Hlast|Hnot].
      + (* the file is complete: the second copy is never read *)
        exists (N.to_nat m + (stale + 1))%nat. eexists. split; [reflexivity|]. rewrite run_add, Hrun1.
        destruct Hfin1 as [Hp Hfile]. apply (finish_with_leftover s r1 a r0 stale _ _ Hss Hlast Hp Hfile).
      + destruct Hfin1 as [hist1 Hrs1].
        (* the second copy finds nothing buffered: the ACK is repeated *)
        replace (a + m) with (a + m + 0) in Hrs1 by lia.
        destruct (drain_out_seq 1 (a + 1 + N.of_nat g) hist1 r1 (a + m + 0) 0 s [] None n1
                    (mk_chan (repeat (ack_dgram a) stale ++ [ack_dgram (a + m)]) None (n2 + 1)) Hrs1) as (r2 & hist2 & Hrun2 & Hrs2).
        { intros i Hi. unfold rest in Hlastblk. lia. }
        cbn [datas app] in Hrun2. fold d in Hrun2. change (0 =? 0) with true in Hrun2. cbv iota in Hrun2.
        replace (a + m + 0) with (a + m) in * by lia.
        rewrite chan_puts_clean in Hrun2 by (intros i Hi; cbn [repeat] in Hi; rewrite lenN_cons, lenN_nil in Hi; replace i with (n2 + 1) by lia; exact Hf3).
        cbn [repeat] in Hrun2. rewrite <- app_assoc in Hrun2. cbn [app] in Hrun2. rewrite lenN_cons, lenN_nil in Hrun2.
        destruct (half_b s r2 a r0 stale 1 n1 (n2 + 1 + (0 + 1)) Hss) as (p' & Hrun3 & Hres).
        { fold m. destruct (N.eqb_spec (a + m) nb); [contradiction|]. exists hist2. exact Hrs2. }
        fold m in Hrun3, Hres. cbn [repeat] in Hrun3.
        exists (N.to_nat m + (1 + (stale + 1)))%nat, p'. split; [rewrite run_add, Hrun1, run_add, Hrun2; exact Hrun3|].
        destruct (N.eqb_spec (a + m) nb); [contradiction|]. destruct Hres as (s' & hist' & Hp' & Hss' & Hrs').
        exists s', r2, hist', 1%nat, (n2 + 1 + (0 + 1)). split; [exact Hp'|]. split; [exact Hss'|]. split; [exact Hrs'|lia].
    - (* the doubled datagram is inside the window: its second copy is ignored *)
      replace (datas (a + 1) g ++ d :: d :: datas (a + N.of_nat g + 2) rest)
        with (datas (a + 1) (g + 1) ++ d :: datas (a + N.of_nat g + 2) rest)
        by (rewrite datas_app; cbn [datas app]; rewrite <- app_assoc; reflexivity).
      destruct (drain_buffer (g + 1) hist r a 0 s (d :: datas (a + N.of_nat g + 2) rest) None n1
                  (mk_chan (repeat (ack_dgram a) stale) None n2) Hrs) as (r1 & hist1 & Hrun1 & Hrs1); try (unfold rest in Hmid; lia).
      destruct (drain_out_seq 1 (a + 1 + N.of_nat g) hist1 r1 (a + N.of_nat (g + 1)) (0 + N.of_nat (g + 1)) s
                  (datas (a + N.of_nat g + 2) rest) None n1 (mk_chan (repeat (ack_dgram a) stale) None n2) Hrs1)
        as (r2 & hist2 & Hrun2 & Hrs2).
      { intros i Hi. lia. }
      cbn [datas app] in Hrun2. fold d in Hrun2.
      replace (0 + N.of_nat (g + 1) =? 0) with false in Hrun2 by lia.
      change (chan_puts f_rs ?c []) with c in Hrun2.
      replace (a + N.of_nat g + 2) with (a + N.of_nat (g + 1) + 1) in Hrun1, Hrun2 |- * by lia.
      destruct (drain_in_seq rest hist2 r2 (a + N.of_nat (g + 1)) (0 + N.of_nat (g + 1)) s [] None n1
                  (mk_chan (repeat (ack_dgram a) stale) None n2) Hrs2) as (r3 & Hrun3 & Hfin3); try (unfold rest in *; lia).
      rewrite app_nil_r in Hrun3.
      replace (a + N.of_nat (g + 1) + N.of_nat rest) with (a + m) in * by (unfold rest in *; lia).
      rewrite Hclean1 in Hrun3.
      destruct (half_b s r3 a r0 stale 0 n1 (n2 + 1) Hss) as (p' & Hrun4 & Hres).
      { fold m. exact Hfin3. }
      fold m in Hrun4, Hres. cbn [repeat] in Hrun4.
      exists (g + 1 + (1 + (rest + (stale + 1))))%nat, p'.
      split; [rewrite run_add, Hrun1, run_add, Hrun2, run_add, Hrun3; exact Hrun4|].
      destruct (N.eqb_spec (a + m) nb); [exact Hres|]. destruct Hres as (s' & hist' & Hp' & Hss' & Hrs').
      exists s', r3, hist', O, (n2 + 1). split; [exact Hp'|]. split; [exact Hss'|]. split; [exact Hrs'|lia].
  Qed.

  Lemma data_dup_from_emit : forall k s r a hist n1 n2 i, nb - a <= N.of_nat k ->
    SS s a 0 -> RS hist r a 0 -> one_dup f_sr i -> clean_from f_rs n2 -> n1 <= i ->
    exists fuel, Final (run fuel (emit_state s r a n1 n2 0)).
  Proof.
    intros k. induction k as [|k IH]; intros s r a hist n1 n2 i Hk Hss Hrs [Hd Hother] Hc2 Hi;
      pose proof (SS_len _ _ _ Hss) as (Ha & Hlen & Hpos); [lia|].
    destruct (N.lt_ge_cases i (n1 + wlen s)) as [Hin|Hout].
    - set (g := N.to_nat (i - n1)).
      rewrite (emit_dup s r a n1 n2 O g) by
        (try (unfold g; lia); try (replace (n1 + N.of_nat g) with i by (unfold g; lia); exact Hd);
         intros j Hj; apply Hother; unfold g in Hj; lia).
      destruct (dup_round s r a 0 O hist (n1 + wlen s) n2 g Hss Hrs ltac:(unfold g; lia)) as (fuel1 & p' & Hrun1 & Hres);
        try (apply Hc2; lia).
      destruct (N.eqb_spec (a + wlen s) nb) as [Hlast|Hnot].
      + exists fuel1. rewrite Hrun1. exact Hres.
      + destruct Hres as (s' & r' & hist' & x & n2' & -> & Hss' & Hrs' & Hn2').
        pose proof (SS_len _ _ _ Hss') as (_ & _ & Hpos').
        rewrite emit_clean in Hrun1 by (intros j Hj; apply Hother; lia).
        destruct (perfect_from_sync k s' r' (a + wlen s) 0 0 x hist' (n1 + wlen s + wlen s') n2'
                    ltac:(lia) Hss' ltac:(replace (a + wlen s + 0) with (a + wlen s) by lia; exact Hrs') ltac:(lia))
          as (fuel2 & Hfin).
        { intros j Hj. apply Hother. lia. }
        { intros j Hj. apply Hc2. lia. }
        exists (fuel1 + fuel2)%nat. rewrite run_add, Hrun1. exact Hfin.
    - rewrite emit_clean by (intros j Hj; apply Hother; lia).
      assert (Hrs0 : RS hist r (a + 0) 0) by (replace (a + 0) with a by lia; exact Hrs).
      destruct (round_gen s r a 0 0 O hist (n1 + wlen s) n2 Hss Hrs0 ltac:(lia) ltac:(apply Hc2; lia))
        as (fuel1 & p' & Hrun1 & Hres).
      destruct (N.eqb_spec (a + wlen s) nb) as [Hlast|Hnot].
      + exists fuel1. rewrite Hrun1. exact Hres.
      + destruct Hres as (s' & r' & hist' & -> & Hss' & Hrs').
        destruct (IH s' r' (a + wlen s) hist' (n1 + wlen s) (n2 + 1) i ltac:(lia) Hss' Hrs' (conj Hd Hother))
          as (fuel2 & Hfin); [intros j Hj; apply Hc2; lia|lia|].
        exists (fuel1 + fuel2)%nat. rewrite run_add, Hrun1. exact Hfin.
  Qed.

  (** ** One datagram held back and released behind its successor (reordering) *)

  Definition one_hold (fs : list (N * fault)) (i : N) : Prop :=
    fault_at fs i = NfHold /\ forall k, k <> i -> fault_at fs k = NfDeliver.

  Lemma chan_puts_hold : forall fs d q n, fault_at fs n = NfHold ->
    chan_puts fs (mk_chan q None n) [d] = mk_chan q (Some d) (n + 1).
  Proof. intros fs d q n H. unfold chan_puts. cbn [fold_left]. unfold chan_put. cbn [ch_n ch_held ch_q]. rewrite H. reflexivity. Qed.

  Lemma chan_puts_release : forall fs d ds h q n, clean fs n (n + lenN (d :: ds)) ->
    chan_puts fs (mk_chan q (Some h) n) (d :: ds) = mk_chan (q ++ d :: h :: ds) None (n + lenN (d :: ds)).
  Proof.
    intros fs d ds h q n Hc. rewrite chan_puts_cons. unfold chan_put at 1. cbn [ch_n ch_held ch_q].
    rewrite (Hc n) by (rewrite lenN_cons; lia). rewrite chan_puts_clean.
    - rewrite <- !app_assoc, lenN_cons. cbn [app]. f_equal. lia.
    - intros i Hi. apply Hc. rewrite lenN_cons. lia.
  Qed.

  (** The window emitted with its [g]-th datagram held: inside the window it comes out behind its successor. *)
  Lemma emit_hold_mid : forall s r a n1 n2 stale g, N.of_nat g + 1 < wlen s ->
    clean f_sr n1 (n1 + N.of_nat g) -> fault_at f_sr (n1 + N.of_nat g) = NfHold ->
    clean f_sr (n1 + N.of_nat g + 1) (n1 + wlen s) ->
    emit_state s r a n1 n2 stale =
      mk_pair s r (mk_chan (datas (a + 1) g ++ data_dgram blk F (a + 1 + N.of_nat g + 1) :: data_dgram blk F (a + 1 + N.of_nat g) ::
                            datas (a + N.of_nat g + 3) (N.to_nat (wlen s) - g - 2)) None (n1 + wlen s))
              (mk_chan (repeat (ack_dgram a) stale) None n2).
  Proof.
    intros s r a n1 n2 stale g Hg Hc1 Hd Hc2. unfold emit_state. f_equal.
    replace (N.to_nat (wlen s)) with (g + (1 + (1 + (N.to_nat (wlen s) - g - 2))))%nat at 1 by lia.
    rewrite !datas_app, !chan_puts_app. rewrite chan_puts_clean by (unfold lenN; rewrite datas_length; exact Hc1).
    unfold lenN at 1. rewrite datas_length. cbn [datas app]. rewrite chan_puts_hold by exact Hd.
    rewrite chan_puts_release by (intros i Hi; apply Hc2; rewrite lenN_cons, lenN_nil in Hi; lia).
    rewrite chan_puts_clean.
    - rewrite lenN_cons, lenN_nil. unfold lenN. rewrite datas_length. rewrite <- !app_assoc. cbn [app]. f_equal; [|lia].
      replace (a + 1 + N.of_nat g + N.of_nat 1) with (a + 1 + N.of_nat g + 1) by lia.
      replace (a + 1 + N.of_nat g + 1 + N.of_nat 1) with (a + N.of_nat g + 3) by lia. reflexivity.
    - rewrite lenN_cons, lenN_nil. unfold lenN. rewrite datas_length. intros i Hi. apply Hc2. lia.
  Qed.

  (** ... as the last datagram of the window it stays held until something else is sent. *)
  Lemma emit_hold_last : forall s r a n1 n2 stale, clean f_sr n1 (n1 + wlen s - 1) ->
    fault_at f_sr (n1 + wlen s - 1) = NfHold -> 1 <= wlen s ->
    emit_state s r a n1 n2 stale =
      mk_pair s r (mk_chan (datas (a + 1) (N.to_nat (wlen s) - 1)) (Some (data_dgram blk F (a + wlen s))) (n1 + wlen s))
              (mk_chan (repeat (ack_dgram a) stale) None n2).
  Proof.
    intros s r a n1 n2 stale Hc1 Hd Hpos. unfold emit_state. f_equal.
    replace (N.to_nat (wlen s)) with ((N.to_nat (wlen s) - 1) + 1)%nat at 1 by lia.
    rewrite datas_app, chan_puts_app. rewrite chan_puts_clean by (unfold lenN; rewrite datas_length; intros i Hi; apply Hc1; lia).
    unfold lenN. rewrite datas_length. cbn [datas app].
    rewrite chan_puts_hold by (replace (n1 + N.of_nat (N.to_nat (wlen s) - 1)) with (n1 + wlen s - 1) by lia; exact Hd).
    f_equal; [f_equal; f_equal; lia|lia].
  Qed.

  (** Recovery from a swap inside the window: the receiver takes the blocks before it, skips the
      one that came too early, takes the late one, ignores the rest; silence; the window goes out again. *)
  Lemma swap_recovery : forall s r a stale hist n1 n2 g, SS s a 0 -> RS hist r a 0 -> N.of_nat g + 1 < wlen s ->
    clean_from f_sr n1 -> clean_from f_rs n2 ->
    exists fuel s' r' hist' n2',
      run fuel (mk_pair s r (mk_chan (datas (a + 1) g ++ data_dgram blk F (a + 1 + N.of_nat g + 1) :: data_dgram blk F (a + 1 + N.of_nat g) ::
                                      datas (a + N.of_nat g + 3) (N.to_nat (wlen s) - g - 2)) None n1)
                        (mk_chan (repeat (ack_dgram a) stale) None n2)) =
        sync_state s' r' a (n1 + wlen s') n2' 0 /\
      SS s' a 1 /\ RS hist' r' (a + N.of_nat (g + 1)) (N.of_nat (g + 1)) /\ N.of_nat (g + 1) < wlen s' /\ n2 <= n2'.
  Proof.
    intros s r a stale hist n1 n2 g Hss Hrs Hg Hc1 Hc2.
    pose proof (SS_len _ _ _ Hss) as (Ha & Hlen & Hpos). set (m := wlen s) in *.
    set (rest := (N.to_nat m - g - 2)%nat). pose proof Hwf as (_ & _ & Hw).
    set (dlate := data_dgram blk F (a + 1 + N.of_nat g)). set (dearly := data_dgram blk F (a + 1 + N.of_nat g + 1)).
    (* 1. the blocks before the swap are buffered *)
    destruct (drain_buffer g hist r a 0 s (dearly :: dlate :: datas (a + N.of_nat g + 3) rest) None n1
                (mk_chan (repeat (ack_dgram a) stale) None n2) Hrs ltac:(lia) ltac:(lia)) as (r1 & hist1 & Hrun1 & Hrs1).
    (* 2. the successor comes first: out of sequence *)
    destruct (drain_out_seq 1 (a + 1 + N.of_nat g + 1) hist1 r1 (a + N.of_nat g) (0 + N.of_nat g) s
                (dlate :: datas (a + N.of_nat g + 3) rest) None n1 (mk_chan (repeat (ack_dgram a) stale) None n2) Hrs1)
      as (r2 & hist2 & Hrun2 & Hrs2).
    { intros i Hi. lia. }
    cbn [datas app] in Hrun2. fold dearly in Hrun2.
    set (extra := if 0 + N.of_nat g =? 0 then 1%nat else O).
    assert (Hq : chan_puts f_rs (mk_chan (repeat (ack_dgram a) stale) None n2)
                   (if 0 + N.of_nat g =? 0 then repeat (ack_dgram (a + N.of_nat g)) 1 else []) =
                 mk_chan (repeat (ack_dgram a) (stale + extra)) None (n2 + N.of_nat extra)).
    { unfold extra. destruct (N.eqb_spec (0 + N.of_nat g) 0) as [Hz|Hnz].
      - rewrite chan_puts_clean by (intros i Hi; apply Hc2; lia).
        replace (a + N.of_nat g) with a by lia. rewrite repeat_app. unfold lenN. rewrite repeat_length. reflexivity.
      - change (chan_puts f_rs ?c []) with c. rewrite Nat.add_0_r, N.add_0_r. reflexivity. }
    rewrite Hq in Hrun2.
    (* 3. the late one is in sequence now *)
    destruct (drain_buffer 1 hist2 r2 (a + N.of_nat g) (0 + N.of_nat g) s (datas (a + N.of_nat g + 3) rest) None n1
                (mk_chan (repeat (ack_dgram a) (stale + extra)) None (n2 + N.of_nat extra)) Hrs2 ltac:(lia) ltac:(lia))
      as (r3 & hist3 & Hrun3 & Hrs3).
    cbn [datas app] in Hrun3. replace (a + N.of_nat g + 1) with (a + 1 + N.of_nat g) in Hrun3 by lia. fold dlate in Hrun3.
    (* 4. what follows is out of sequence, with blocks buffered: ignored *)
    destruct (drain_out_seq rest (a + N.of_nat g + 3) hist3 r3 (a + N.of_nat g + N.of_nat 1) (0 + N.of_nat g + N.of_nat 1) s [] None n1
                (mk_chan (repeat (ack_dgram a) (stale + extra)) None (n2 + N.of_nat extra)) Hrs3) as (r4 & hist4 & Hrun4 & Hrs4).
    { intros i Hi. unfold rest in Hi. lia. }
    rewrite app_nil_r in Hrun4.
    replace (0 + N.of_nat g + N.of_nat 1 =? 0) with false in Hrun4 by lia.
    change (chan_puts f_rs ?c []) with c in Hrun4.
    (* 5. the sender reads the repeated ACK, if any; silence; the timer fires *)
    destruct (drain_stale (stale + extra) s a 0 r4 None n1 [] None (n2 + N.of_nat extra) Hss) as (s5 & Hrun5 & Hss5 & Hl5).
    rewrite app_nil_r in Hrun5.
    destruct (send_retx s5 a 0 Hss5 one_retry) as (s6 & out & E6 & Hss6 & Hl6 & Hout6).
    exists (g + (1 + (1 + (rest + ((stale + extra) + 1)))))%nat, s6, r4, hist4, (n2 + N.of_nat extra).
    split; [|split; [exact Hss6|split; [|split; [rewrite Hl6, Hl5; fold m; lia|lia]]]].
    - rewrite run_add, Hrun1, run_add, Hrun2, run_add, Hrun3, run_add, Hrun4, run_add, Hrun5.
      cbn [pair_run]. rewrite step_tmo by apply Hss5. rewrite E6. cbn [fst snd].
      rewrite Hout6. unfold sync_state. rewrite chan_puts_clean by (intros i Hi; apply Hc1; lia).
      cbn [app repeat]. unfold lenN. rewrite datas_length, N2Nat.id, Hl6. reflexivity.
    - replace (a + N.of_nat (g + 1)) with (a + N.of_nat g + N.of_nat 1) by lia.
      replace (N.of_nat (g + 1)) with (0 + N.of_nat g + N.of_nat 1) by lia. exact Hrs4.
  Qed.

  (** The last datagram of a window held: the receiver buffers the others and waits; the timer
      fires; the first datagram of the retransmission releases the held one. *)
  Lemma hold_last_recovery : forall s r a stale hist n1 n2, SS s a 0 -> RS hist r a 0 ->
    clean_from f_sr n1 -> clean_from f_rs n2 ->
    exists fuel p',
      run fuel (mk_pair s r (mk_chan (datas (a + 1) (N.to_nat (wlen s) - 1)) (Some (data_dgram blk F (a + wlen s))) n1)
                        (mk_chan (repeat (ack_dgram a) stale) None n2)) = p' /\
      if a + wlen s =? nb then Final p'
      else exists s' r' hist' x n1' n2', p' = emit_state s' r' (a + wlen s) n1' n2' x /\
             SS s' (a + wlen s) 0 /\ RS hist' r' (a + wlen s) 0 /\ n1 <= n1' /\ n2 <= n2'.
  Proof.
    intros s r a stale hist n1 n2 Hss Hrs Hc1 Hc2.
    pose proof (SS_len _ _ _ Hss) as (Ha & Hlen & Hpos). set (m := wlen s) in *.
    pose proof Hwf as (_ & _ & Hw). set (dl := data_dgram blk F (a + m)).
    (* 1. the other blocks of the window are buffered *)
    destruct (drain_buffer (N.to_nat m - 1) hist r a 0 s [] (Some dl) n1 (mk_chan (repeat (ack_dgram a) stale) None n2) Hrs
                ltac:(lia) ltac:(lia)) as (r1 & hist1 & Hrun1 & Hrs1).
    rewrite app_nil_r in Hrun1.
    (* 2. the sender reads the repeated ACKs; silence; the timer fires; the retransmission releases the held datagram *)
    destruct (drain_stale stale s a 0 r1 (Some dl) n1 [] None n2 Hss) as (s2 & Hrun2 & Hss2 & Hl2).
    rewrite app_nil_r in Hrun2.
    destruct (send_retx s2 a 0 Hss2 one_retry) as (s3 & out & E3 & Hss3 & Hl3 & Hout3).
    assert (Hm3 : wlen s3 = m) by (rewrite Hl3; exact Hl2).
    assert (Hrun3 : run (N.to_nat m - 1 + (stale + 1))
                      (mk_pair s r (mk_chan (datas (a + 1) (N.to_nat m - 1)) (Some dl) n1) (mk_chan (repeat (ack_dgram a) stale) None n2)) =
                    mk_pair s3 r1 (mk_chan (data_dgram blk F (a + 1) :: dl :: datas (a + 1 + 1) (N.to_nat m - 1)) None (n1 + m))
                            (mk_chan [] None n2)).
    { rewrite run_add, Hrun1, run_add, Hrun2. cbn [pair_run]. rewrite step_tmo by apply Hss2. rewrite E3. cbn [fst snd].
      rewrite Hout3, Hl2. fold m.
      replace (datas (a + 1) (N.to_nat m)) with (data_dgram blk F (a + 1) :: datas (a + 1 + 1) (N.to_nat m - 1))
        by (replace (N.to_nat m) with (S (N.to_nat m - 1)) at 2 by lia; reflexivity).
      rewrite chan_puts_release by (intros i Hi; apply Hc1; lia). cbn [app]. rewrite lenN_cons. unfold lenN. rewrite datas_length.
      f_equal. f_equal. lia. }
    assert (Hclean1 : forall q, chan_puts f_rs (mk_chan q None n2) [ack_dgram (a + m)] = mk_chan (q ++ [ack_dgram (a + m)]) None (n2 + 1)).
    { intros q. rewrite chan_puts_clean; [reflexivity|]. intros i Hi. apply Hc2. lia. }
    destruct (N.eq_dec m 1) as [Hone|Hmore].
    - (* a window of one block: the retransmission and the released copy are the same block *)
      replace (N.to_nat m - 1)%nat with O in * by lia. cbn [datas] in Hrun3.
      replace (N.of_nat 0) with 0 in Hrs1 by reflexivity. replace (a + 0) with a in Hrs1 by lia. replace (0 + 0) with 0 in Hrs1 by lia.
      assert (Hdl : dl = data_dgram blk F (a + 1)) by (unfold dl; rewrite Hone; reflexivity).
      destruct (drain_in_seq 1 hist1 r1 a 0 s3 [dl] None (n1 + m) (mk_chan [] None n2) Hrs1) as (r4 & Hrun4 & Hfin4); try lia.
      cbn [datas app] in Hrun4. replace (a + N.of_nat 1) with (a + m) in * by lia. rewrite Hclean1 in Hrun4. cbn [app] in Hrun4.
      destruct (N.eqb_spec (a + m) nb) as [Hlast|Hnot].
      + exists (N.to_nat m - 1 + (stale + 1) + (1 + (0 + 1)))%nat. eexists. split; [reflexivity|].
        replace (N.to_nat m - 1)%nat with O by lia. cbn [datas]. rewrite run_add, Hrun3, run_add, Hrun4.
        destruct Hfin4 as [Hp Hfile]. rewrite <- Hm3 in Hlast |- *.
        apply (finish_with_leftover s3 r4 a (0 + 1) O _ _ Hss3 Hlast Hp Hfile).
      + destruct Hfin4 as [hist4 Hrs4]. replace (a + m) with (a + m + 0) in Hrs4 by lia.
        destruct (drain_out_seq 1 (a + 1) hist4 r4 (a + m + 0) 0 s3 [] None (n1 + m) (mk_chan [ack_dgram (a + m)] None (n2 + 1)) Hrs4)
          as (r5 & hist5 & Hrun5 & Hrs5).
        { intros i Hi. lia. }
        cbn [datas app] in Hrun5. rewrite <- Hdl in Hrun5. change (0 =? 0) with true in Hrun5. cbv iota in Hrun5.
        replace (a + m + 0) with (a + m) in * by lia.
        rewrite chan_puts_clean in Hrun5 by (intros i Hi; apply Hc2; lia). cbn [repeat app] in Hrun5.
        rewrite lenN_cons, lenN_nil in Hrun5.
        destruct (half_b s3 r5 a (0 + 1) O 1 (n1 + m) (n2 + 1 + (0 + 1)) Hss3) as (p' & Hrun6 & Hres).
        { rewrite Hm3. destruct (N.eqb_spec (a + m) nb); [contradiction|]. exists hist5. exact Hrs5. }
        rewrite Hm3 in Hrun6, Hres. cbn [repeat app] in Hrun6.
        exists (N.to_nat m - 1 + (stale + 1) + (1 + (1 + (0 + 1))))%nat, p'.
        split; [replace (N.to_nat m - 1)%nat with O by lia; cbn [datas]; rewrite run_add, Hrun3, run_add, Hrun4, run_add, Hrun5; exact Hrun6|].
        destruct (N.eqb_spec (a + m) nb); [contradiction|]. destruct Hres as (s' & hist' & Hp' & Hss' & Hrs').
        exists s', r5, hist', 1%nat, (n1 + m), (n2 + 1 + (0 + 1)).
        split; [exact Hp'|]. split; [exact Hss'|]. split; [exact Hrs'|lia].
    - (* two or more blocks: the first retransmitted block is ignored, the released one completes the window *)
      replace (N.of_nat (N.to_nat m - 1)) with (m - 1) in Hrs1 by lia.
      destruct (drain_out_seq 1 (a + 1) hist1 r1 (a + (m - 1)) (0 + (m - 1)) s3 (dl :: datas (a + 1 + 1) (N.to_nat m - 1)) None (n1 + m)
                  (mk_chan [] None n2) Hrs1) as (r4 & hist4 & Hrun4 & Hrs4).
      { intros i Hi. lia. }
      cbn [datas app] in Hrun4. replace (0 + (m - 1) =? 0) with false in Hrun4 by lia.
      change (chan_puts f_rs ?c []) with c in Hrun4.
      destruct (drain_in_seq 1 hist4 r4 (a + (m - 1)) (0 + (m - 1)) s3 (datas (a + 1 + 1) (N.to_nat m - 1)) None (n1 + m)
                  (mk_chan [] None n2) Hrs4) as (r5 & Hrun5 & Hfin5); try lia.
      cbn [datas app] in Hrun5. replace (a + (m - 1) + 1) with (a + m) in Hrun5 by lia. fold dl in Hrun5.
      replace (a + (m - 1) + N.of_nat 1) with (a + m) in * by lia. rewrite Hclean1 in Hrun5. cbn [app] in Hrun5.
      destruct (N.eqb_spec (a + m) nb) as [Hlast|Hnot].
      + exists (N.to_nat m - 1 + (stale + 1) + (1 + (1 + (0 + 1))))%nat. eexists. split; [reflexivity|].
        rewrite run_add, Hrun3, run_add, Hrun4, run_add, Hrun5.
        destruct Hfin5 as [Hp Hfile]. rewrite <- Hm3 in Hlast |- *.
        apply (finish_with_leftover s3 r5 a (0 + 1) O _ _ Hss3 Hlast Hp Hfile).
      + destruct Hfin5 as [hist5 Hrs5]. replace (a + m) with (a + m + 0) in Hrs5 by lia.
        destruct (drain_out_seq (N.to_nat m - 1) (a + 1 + 1) hist5 r5 (a + m + 0) 0 s3 [] None (n1 + m)
                    (mk_chan [ack_dgram (a + m)] None (n2 + 1)) Hrs5) as (r6 & hist6 & Hrun6 & Hrs6).
        { intros i Hi. lia. }
        rewrite app_nil_r in Hrun6. change (0 =? 0) with true in Hrun6. cbv iota in Hrun6.
        replace (a + m + 0) with (a + m) in * by lia.
        rewrite chan_puts_clean in Hrun6 by (intros i Hi; apply Hc2; lia). cbn [app] in Hrun6.
        unfold lenN in Hrun6. rewrite repeat_length in Hrun6.
        destruct (half_b s3 r6 a (0 + 1) O (N.to_nat m - 1) (n1 + m) (n2 + 1 + N.of_nat (N.to_nat m - 1)) Hss3) as (p' & Hrun7 & Hres).
        { rewrite Hm3. destruct (N.eqb_spec (a + m) nb); [contradiction|]. exists hist6. exact Hrs6. }
        rewrite Hm3 in Hrun7, Hres. cbn [repeat app] in Hrun7.
        exists (N.to_nat m - 1 + (stale + 1) + (1 + (1 + ((N.to_nat m - 1) + (0 + 1)))))%nat, p'.
        split; [rewrite run_add, Hrun3, run_add, Hrun4, run_add, Hrun5, run_add, Hrun6; exact Hrun7|].
        destruct (N.eqb_spec (a + m) nb); [contradiction|]. destruct Hres as (s' & hist' & Hp' & Hss' & Hrs').
        exists s', r6, hist', (N.to_nat m - 1)%nat, (n1 + m), (n2 + 1 + N.of_nat (N.to_nat m - 1)).
        split; [exact Hp'|]. split; [exact Hss'|]. split; [exact Hrs'|lia].
  Qed.

  Lemma data_hold_from_emit : forall k s r a hist n1 n2 i, nb - a <= N.of_nat k ->
    SS s a 0 -> RS hist r a 0 -> one_hold f_sr i -> clean_from f_rs n2 -> n1 <= i ->
    exists fuel, Final (run fuel (emit_state s r a n1 n2 0)).
  Proof.
    intros k. induction k as [|k IH]; intros s r a hist n1 n2 i Hk Hss Hrs [Hd Hother] Hc2 Hi;
      pose proof (SS_len _ _ _ Hss) as (Ha & Hlen & Hpos); [lia|].
    destruct (N.lt_ge_cases i (n1 + wlen s)) as [Hin|Hout].
    - set (g := N.to_nat (i - n1)).
      destruct (N.lt_ge_cases (N.of_nat g + 1) (wlen s)) as [Hmid|Hlastblk].
      + (* held inside the window: it comes out behind its successor *)
        rewrite (emit_hold_mid s r a n1 n2 O g) by
          (try exact Hmid; try (replace (n1 + N.of_nat g) with i by (unfold g; lia); exact Hd);
           intros j Hj; apply Hother; unfold g in Hj; lia).
        destruct (swap_recovery s r a O hist (n1 + wlen s) n2 g Hss Hrs Hmid) as
          (fuel1 & s' & r' & hist' & n2' & Hrun1 & Hss' & Hrs' & Hg' & Hn2'); try assumption.
        { intros j Hj. apply Hother. lia. }
        destruct (perfect_from_sync (S k) s' r' a 1 (N.of_nat (g + 1)) O hist' (n1 + wlen s + wlen s') n2' Hk Hss' Hrs' Hg')
          as (fuel2 & Hfin).
        { intros j Hj. apply Hother. lia. }
        { intros j Hj. apply Hc2. lia. }
        exists (fuel1 + fuel2)%nat. rewrite run_add, Hrun1. exact Hfin.
      + (* the last datagram of the window is held *)
        rewrite (emit_hold_last s r a n1 n2 O) by
          (try exact Hpos; try (replace (n1 + wlen s - 1) with i by (unfold g in *; lia); exact Hd);
           intros j Hj; apply Hother; unfold g in *; lia).
        destruct (hold_last_recovery s r a O hist (n1 + wlen s) n2 Hss Hrs) as (fuel1 & p' & Hrun1 & Hres); try assumption.
        { intros j Hj. apply Hother. lia. }
        destruct (N.eqb_spec (a + wlen s) nb) as [Hlast|Hnot].
        * exists fuel1. rewrite Hrun1. exact Hres.
        * destruct Hres as (s' & r' & hist' & x & n1' & n2' & -> & Hss' & Hrs' & Hn1' & Hn2').
          pose proof (SS_len _ _ _ Hss') as (_ & _ & Hpos').
          rewrite emit_clean in Hrun1 by (intros j Hj; apply Hother; lia).
          destruct (perfect_from_sync k s' r' (a + wlen s) 0 0 x hist' (n1' + wlen s') n2'
                      ltac:(lia) Hss' ltac:(replace (a + wlen s + 0) with (a + wlen s) by lia; exact Hrs') ltac:(lia))
            as (fuel2 & Hfin).
          { intros j Hj. apply Hother. lia. }
          { intros j Hj. apply Hc2. lia. }
          exists (fuel1 + fuel2)%nat. rewrite run_add, Hrun1. exact Hfin.
    - rewrite emit_clean by (intros j Hj; apply Hother; lia).
      assert (Hrs0 : RS hist r (a + 0) 0) by (replace (a + 0) with a by lia; exact Hrs).
      destruct (round_gen s r a 0 0 O hist (n1 + wlen s) n2 Hss Hrs0 ltac:(lia) ltac:(apply Hc2; lia))
        as (fuel1 & p' & Hrun1 & Hres).
      destruct (N.eqb_spec (a + wlen s) nb) as [Hlast|Hnot].
      + exists fuel1. rewrite Hrun1. exact Hres.
      + destruct Hres as (s' & r' & hist' & -> & Hss' & Hrs').
        destruct (IH s' r' (a + wlen s) hist' (n1 + wlen s) (n2 + 1) i ltac:(lia) Hss' Hrs' (conj Hd Hother))
          as (fuel2 & Hfin); [intros j Hj; apply Hc2; lia|lia|].
        exists (fuel1 + fuel2)%nat. rewrite run_add, Hrun1. exact Hfin.
  Qed.

  (** *** A held ACK: it is released behind the next datagram the receiver sends *)
  Lemma ack_hold_from_emit : forall k s r a hist n1 n2 i, nb - a <= N.of_nat k ->
    SS s a 0 -> RS hist r a 0 -> one_hold f_rs i -> clean_from f_sr n1 -> n2 <= i ->
    exists fuel, FinalR (run fuel (emit_state s r a n1 n2 0)) /\
      (s_phase (p_s (run fuel (emit_state s r a n1 n2 0))) = SDone OutOk \/
       ch_n (p_rs (run fuel (emit_state s r a n1 n2 0))) = i + 1).
  Proof.
    intros k. induction k as [|k IH]; intros s r a hist n1 n2 i Hk Hss Hrs [Hd Hother] Hc1 Hi;
      pose proof (SS_len _ _ _ Hss) as (Ha & Hlen & Hpos); [lia|].
    rewrite emit_clean by (intros j Hj; apply Hc1; lia).
    assert (Hrs0 : RS hist r (a + 0) 0) by (replace (a + 0) with a by lia; exact Hrs).
    unfold sync_state. set (m := wlen s) in *. pose proof Hwf as (_ & _ & Hw).
    destruct (N.eq_dec i n2) as [->|Hne].
    - (* this round's ACK is the one that is held *)
      destruct (half_a s r a 0 0 O hist (n1 + m) n2 [] (Some (ack_dgram (a + m))) Hss Hrs0 ltac:(lia))
        as (s1 & r1 & Hrun1 & Hss1 & Hl1 & Hfin1).
      { cbn [repeat app]. apply chan_puts_hold. exact Hd. }
      fold m in Hrun1, Hfin1, Hl1. cbn [repeat] in Hrun1 |- *.
      destruct (N.eqb_spec (a + m) nb) as [Hlast|Hnot].
      + (* it was the last ACK of the transfer and nothing will ever release it *)
        exists (N.to_nat m + 0)%nat. rewrite Hrun1. cbn [p_r p_s p_rs ch_n]. split; [exact Hfin1|right; reflexivity].
      + destruct Hfin1 as [hist1 Hrs1].
        destruct (send_retx s1 a 0 Hss1 one_retry) as (s2 & out & E2 & Hss2 & Hl2 & Hout2).
        replace (a + m) with (a + m + 0) in Hrs1 by lia.
        destruct (drain_out_seq (N.to_nat m) (a + 1) hist1 r1 (a + m + 0) 0 s2 [] None (n1 + m + m)
                    (mk_chan [] (Some (ack_dgram (a + m))) (n2 + 1)) ltac:(replace (a + m + 0) with (a + m) in * by lia; exact Hrs1))
          as (r2 & hist2 & Hrun3 & Hrs2).
        { intros j Hj. lia. }
        rewrite app_nil_r in Hrun3. change (0 =? 0) with true in Hrun3. cbv iota in Hrun3.
        replace (a + m + 0) with (a + m) in * by lia.
        (* the first repeated ACK releases the held one *)
        assert (Hrep : repeat (ack_dgram (a + m)) (N.to_nat m) = ack_dgram (a + m) :: repeat (ack_dgram (a + m)) (N.to_nat m - 1)).
        { replace (N.to_nat m) with (S (N.to_nat m - 1)) at 1 by lia. reflexivity. }
        rewrite Hrep in Hrun3. rewrite chan_puts_release in Hrun3 by (intros j Hj; apply Hother; lia).
        cbn [app] in Hrun3. rewrite lenN_cons in Hrun3. unfold lenN in Hrun3. rewrite repeat_length in Hrun3.
        assert (Hm2 : wlen s2 = m) by (rewrite Hl2; exact Hl1).
        destruct (send_ack_window s2 a (0 + 1) Hss2) as (s3 & out3 & E3 & Hres3). rewrite Hm2 in E3, Hres3.
        destruct (N.eqb_spec (a + m) nb) as [|_]; [contradiction|]. destruct Hres3 as [Hss3 Hout3].
        pose proof (SS_len _ _ _ Hss3) as (_ & _ & Hpos3).
        destruct (perfect_from_sync k s3 r2 (a + m) 0 0 (S (N.to_nat m - 1)) hist2 (n1 + m + m + wlen s3)
                    (n2 + 1 + (N.of_nat (N.to_nat m - 1) + 1))
                    ltac:(lia) Hss3 ltac:(replace (a + m + 0) with (a + m) by lia; exact Hrs2) ltac:(lia))
          as (fuel4 & Hfin4).
        { intros j Hj. apply Hc1. lia. }
        { intros j Hj. apply Hother. lia. }
        exists (N.to_nat m + 0 + 1 + N.to_nat m + 1 + fuel4)%nat.
        assert (Hrun : run (N.to_nat m + 0 + 1 + N.to_nat m + 1)
                         (mk_pair s r (mk_chan (datas (a + 1) (N.to_nat m)) None (n1 + m)) (mk_chan [] None n2)) =
                       sync_state s3 r2 (a + m) (n1 + m + m + wlen s3) (n2 + 1 + (N.of_nat (N.to_nat m - 1) + 1)) (S (N.to_nat m - 1))).
        { rewrite (run_add (N.to_nat m + 0 + 1 + N.to_nat m) 1), (run_add (N.to_nat m + 0 + 1) (N.to_nat m)),
                  (run_add (N.to_nat m + 0) 1), Hrun1.
          cbn [pair_run]. rewrite step_tmo by apply Hss1. rewrite E2. cbn [fst snd]. rewrite Hout2, Hl1.
          rewrite chan_puts_clean by (intros j Hj; apply Hc1; lia). cbn [app]. unfold lenN. rewrite datas_length, N2Nat.id.
          rewrite Hrun3. rewrite step_send by apply Hss2. rewrite E3. cbn [fst snd]. rewrite Hout3.
          rewrite chan_puts_clean by (intros j Hj; apply Hc1; lia). cbn [app]. unfold lenN. rewrite datas_length, N2Nat.id.
          reflexivity. }
        rewrite (run_add (N.to_nat m + 0 + 1 + N.to_nat m + 1) fuel4), Hrun.
        destruct Hfin4 as (Hf1 & Hf2 & Hf3). split; [split; assumption|left; exact Hf3].
    - destruct (round_gen s r a 0 0 O hist (n1 + m) n2 Hss Hrs0 ltac:(lia) ltac:(apply Hother; lia))
        as (fuel1 & p' & Hrun1 & Hres). fold m in Hres. unfold sync_state in Hrun1. fold m in Hrun1.
      destruct (N.eqb_spec (a + m) nb) as [Hlast|Hnot].
      + exists fuel1. rewrite Hrun1. destruct Hres as (Hf1 & Hf2 & Hf3). split; [split; assumption|left; exact Hf3].
      + destruct Hres as (s' & r' & hist' & -> & Hss' & Hrs').
        destruct (IH s' r' (a + m) hist' (n1 + m) (n2 + 1) i ltac:(lia) Hss' Hrs' (conj Hd Hother))
          as (fuel2 & Hfin); [intros j Hj; apply Hc1; lia|lia|].
        exists (fuel1 + fuel2)%nat. rewrite run_add, Hrun1. exact Hfin.
  Qed.
  End Pair.

  (** * The theorems *)

  Lemma nil_clean : forall lo, clean_from [] lo.
  Proof. intros lo i _. reflexivity. Qed.

  Lemma single_one_drop : forall i, one_drop [(i, NfDrop)] i.
  Proof.
    intros i. split; cbn [fault_at]; [rewrite N.eqb_refl; reflexivity|].
    intros k Hk. destruct (N.eqb_spec i k); [congruence|reflexivity].
  Qed.

  (** No interference: both sides complete, the receiver holds exactly the file. *)
  Theorem cosim_perfect : exists fuel,
    let p := pair_run sc rc [] [] fuel (pair_init sc rc [] F) in
    r_phase (p_r p) = RDone OutOk /\ written_bytes (w_file (r_w (p_r p))) = F /\ s_phase (p_s p) = SDone OutOk.
  Proof. exact (cosim_perfect_gen [] [] (nil_clean 0) (nil_clean 0)). Qed.

  (** Any one DATA datagram lost - whichever one, in whichever window, of whatever file:
      both sides complete, the receiver holds exactly the file. *)
  Theorem cosim_data_drop : forall i, exists fuel,
    let p := pair_run sc rc [(i, NfDrop)] [] fuel (pair_init sc rc [(i, NfDrop)] F) in
    r_phase (p_r p) = RDone OutOk /\ written_bytes (w_file (r_w (p_r p))) = F /\ s_phase (p_s p) = SDone OutOk.
  Proof.
    intros i. destruct (init_emit [(i, NfDrop)]) as (s0 & -> & Hss).
    apply (data_drop_from_emit [(i, NfDrop)] [] (N.to_nat nb) s0 (recv_init rc) 0 [] 0 0 i); try assumption; try lia.
    - exact recv_init_RS.
    - apply single_one_drop.
    - apply nil_clean.
  Qed.

  (** Any one ACK lost: the receiver completes holding exactly the file; the sender completes
      too, unless the lost ACK was the last datagram the receiver ever sent (RFC 1350's exception:
      the receiver does not dally, the sender gives up). *)
  Theorem cosim_ack_drop : forall i, exists fuel,
    let p := pair_run sc rc [] [(i, NfDrop)] fuel (pair_init sc rc [] F) in
    r_phase (p_r p) = RDone OutOk /\ written_bytes (w_file (r_w (p_r p))) = F /\
    (s_phase (p_s p) = SDone OutOk \/ ch_n (p_rs p) = i + 1).
  Proof.
    intros i. destruct (init_emit []) as (s0 & -> & Hss).
    destruct (ack_drop_from_emit [] [(i, NfDrop)] (N.to_nat nb) s0 (recv_init rc) 0 [] 0 0 i) as (fuel & [H1 H2] & H3);
      try assumption; try lia.
    - exact recv_init_RS.
    - apply single_one_drop.
    - apply nil_clean.
    - exists fuel. cbv zeta. split; [exact H1|]. split; [exact H2|exact H3].
  Qed.

  Lemma single_one_dup : forall i, one_dup [(i, NfDup)] i.
  Proof.
    intros i. split; cbn [fault_at]; [rewrite N.eqb_refl; reflexivity|].
    intros k Hk. destruct (N.eqb_spec i k); [congruence|reflexivity].
  Qed.

  (** Any one DATA datagram delivered twice: both sides complete, the file is exact. *)
  Theorem cosim_data_dup : forall i, exists fuel,
    let p := pair_run sc rc [(i, NfDup)] [] fuel (pair_init sc rc [(i, NfDup)] F) in
    r_phase (p_r p) = RDone OutOk /\ written_bytes (w_file (r_w (p_r p))) = F /\ s_phase (p_s p) = SDone OutOk.
  Proof.
    intros i. destruct (init_emit [(i, NfDup)]) as (s0 & -> & Hss).
    apply (data_dup_from_emit [(i, NfDup)] [] (N.to_nat nb) s0 (recv_init rc) 0 [] 0 0 i); try assumption; try lia.
    - exact recv_init_RS.
    - apply single_one_dup.
    - apply nil_clean.
  Qed.

  (** Any one ACK delivered twice: both sides complete, the file is exact. *)
  Theorem cosim_ack_dup : forall i, exists fuel,
    let p := pair_run sc rc [] [(i, NfDup)] fuel (pair_init sc rc [] F) in
    r_phase (p_r p) = RDone OutOk /\ written_bytes (w_file (r_w (p_r p))) = F /\ s_phase (p_s p) = SDone OutOk.
  Proof.
    intros i. destruct (init_emit []) as (s0 & -> & Hss).
    apply (ack_dup_from_emit [] [(i, NfDup)] (N.to_nat nb) s0 (recv_init rc) 0 [] 0 0 i); try assumption; try lia.
    - exact recv_init_RS.
    - apply single_one_dup.
    - apply nil_clean.
  Qed.

  Lemma single_one_hold : forall i, one_hold [(i, NfHold)] i.
  Proof.
    intros i. split; cbn [fault_at]; [rewrite N.eqb_refl; reflexivity|].
    intros k Hk. destruct (N.eqb_spec i k); [congruence|reflexivity].
  Qed.

  (** Any one DATA datagram overtaken by its successor (or, the last of a window, by the
      retransmission): both sides complete, the file is exact. *)
  Theorem cosim_data_hold : forall i, exists fuel,
    let p := pair_run sc rc [(i, NfHold)] [] fuel (pair_init sc rc [(i, NfHold)] F) in
    r_phase (p_r p) = RDone OutOk /\ written_bytes (w_file (r_w (p_r p))) = F /\ s_phase (p_s p) = SDone OutOk.
  Proof.
    intros i. destruct (init_emit [(i, NfHold)]) as (s0 & -> & Hss).
    apply (data_hold_from_emit [(i, NfHold)] [] (N.to_nat nb) s0 (recv_init rc) 0 [] 0 0 i); try assumption; try lia.
    - exact recv_init_RS.
    - apply single_one_hold.
    - apply nil_clean.
  Qed.

  (** Any one ACK held back until the receiver sends again: the receiver completes with the exact
      file; so does the sender, unless the held ACK was the last datagram of the transfer. *)
  Theorem cosim_ack_hold : forall i, exists fuel,
    let p := pair_run sc rc [] [(i, NfHold)] fuel (pair_init sc rc [] F) in
    r_phase (p_r p) = RDone OutOk /\ written_bytes (w_file (r_w (p_r p))) = F /\
    (s_phase (p_s p) = SDone OutOk \/ ch_n (p_rs p) = i + 1).
  Proof.
    intros i. destruct (init_emit []) as (s0 & -> & Hss).
    destruct (ack_hold_from_emit [] [(i, NfHold)] (N.to_nat nb) s0 (recv_init rc) 0 [] 0 0 i) as (fuel & [H1 H2] & H3);
      try assumption; try lia.
    - exact recv_init_RS.
    - apply single_one_hold.
    - apply nil_clean.
    - exists fuel. cbv zeta. split; [exact H1|]. split; [exact H2|exact H3].
  Qed.

  Lemma fault_at_drops : forall is k,
    (In k is -> fault_at (map (fun i => (i, NfDrop)) is) k = NfDrop) /\
    (~ In k is -> fault_at (map (fun i => (i, NfDrop)) is) k = NfDeliver).
  Proof.
    intros is k. induction is as [|i r [IH1 IH2]]; cbn [map fault_at In]; [split; [intros []|reflexivity]|].
    destruct (N.eqb_spec i k) as [->|Hne]; split; intros H; try reflexivity.
    - exfalso. apply H. left. reflexivity.
    - destruct H as [E|H]; [congruence|apply IH1; exact H].
    - apply IH2. intros Hin. apply H. right. exact Hin.
  Qed.

  (** Any number of lost DATA datagrams, as long as any two of them are more than two windows of
      datagrams apart (so that no window is hit twice, nor its retransmission): both sides complete. *)
  Theorem cosim_data_drops : forall is, spaced (2 * ws) 0 is -> exists fuel,
    let f := map (fun i => (i, NfDrop)) is in
    let p := pair_run sc rc f [] fuel (pair_init sc rc f F) in
    r_phase (p_r p) = RDone OutOk /\ written_bytes (w_file (r_w (p_r p))) = F /\ s_phase (p_s p) = SDone OutOk.
  Proof.
    intros is Hsp. cbv zeta. destruct (init_emit (map (fun i => (i, NfDrop)) is)) as (s0 & -> & Hss).
    apply (data_drops_from_emit (map (fun i => (i, NfDrop)) is) [] (N.to_nat nb) is s0 (recv_init rc) 0 [] 0 0); try assumption; try lia.
    - exact recv_init_RS.
    - intros k _. apply fault_at_drops.
    - apply nil_clean.
  Qed.

  (** Any number of lost ACKs, any two of them more than a window of datagrams apart: the receiver
      completes with exactly the file; so does the sender, unless the last datagram the receiver
      ever sent is among the lost ones (the final ACK). *)
  Theorem cosim_ack_drops : forall is, spaced ws 0 is -> exists fuel,
    let f := map (fun i => (i, NfDrop)) is in
    let p := pair_run sc rc [] f fuel (pair_init sc rc [] F) in
    r_phase (p_r p) = RDone OutOk /\ written_bytes (w_file (r_w (p_r p))) = F /\
    (s_phase (p_s p) = SDone OutOk \/ In (ch_n (p_rs p) - 1) is).
  Proof.
    intros is Hsp. cbv zeta. destruct (init_emit []) as (s0 & -> & Hss).
    pose proof (SS_len _ _ _ Hss) as (_ & _ & Hpos).
    rewrite emit_clean by (intros i Hi; reflexivity).
    destruct (ack_drops_from_sync [] (map (fun i => (i, NfDrop)) is) (N.to_nat nb) is s0 (recv_init rc) 0 [] (0 + wlen s0) 0 O)
      as (fuel & [H1 H2] & H3); try assumption; try lia.
    - exact recv_init_RS.
    - intros k _. apply fault_at_drops.
    - apply nil_clean.
    - exists fuel. split; [exact H1|]. split; [exact H2|exact H3].
  Qed.
End Live.

(** The single-fault statement of Props/C04.v (receiver side), for every kind of fault of the
    network model: delivered, lost, repeated, held back behind its successor. *)
Theorem single_fault_statement_holds :
  forall (blk ws : N) (F : bytes) (dir : bool) (i : N) (k : fault), 0 < blk -> 1 <= ws <= 65535 ->
  exists fuel,
    let sc := mk_scfg blk ws 1000000000 1 false [] in
    let rc := mk_rcfg blk ws 1000000000 1 true [] in
    let f1 := if dir then [(i, k)] else [] in
    let f2 := if dir then [] else [(i, k)] in
    let p := pair_run sc rc f1 f2 fuel (pair_init sc rc f1 F) in
    r_phase (p_r p) = RDone OutOk /\ recv_final_file rc (p_r p) <> None.
Proof.
  intros blk ws F dir i k Hb Hw.
  set (sc := mk_scfg blk ws 1000000000 1 false []). set (rc := mk_rcfg blk ws 1000000000 1 true []).
  assert (Hwf : wf_params (s_blk sc) (s_ws sc)) by (split; assumption).
  assert (Hdel : forall lo, clean_from [(i, NfDeliver)] lo).
  { intros lo j _. cbn [fault_at]. destruct (i =? j); reflexivity. }
  destruct k; destruct dir.
  - destruct (cosim_perfect_gen sc rc F Hwf eq_refl eq_refl eq_refl eq_refl eq_refl eq_refl eq_refl eq_refl
                [(i, NfDeliver)] [] (Hdel 0) (nil_clean 0)) as (fuel & H1 & _).
    exists fuel. cbv zeta. split; [exact H1|]. unfold recv_final_file. rewrite H1. discriminate.
  - destruct (cosim_perfect_gen sc rc F Hwf eq_refl eq_refl eq_refl eq_refl eq_refl eq_refl eq_refl eq_refl
                [] [(i, NfDeliver)] (nil_clean 0) (Hdel 0)) as (fuel & H1 & _).
    exists fuel. cbv zeta. split; [exact H1|]. unfold recv_final_file. rewrite H1. discriminate.
  - destruct (cosim_data_drop sc rc F Hwf eq_refl eq_refl eq_refl eq_refl eq_refl eq_refl eq_refl eq_refl i) as (fuel & H1 & _).
    exists fuel. cbv zeta. split; [exact H1|]. unfold recv_final_file. rewrite H1. discriminate.
  - destruct (cosim_ack_drop sc rc F Hwf eq_refl eq_refl eq_refl eq_refl eq_refl eq_refl eq_refl eq_refl i) as (fuel & H1 & _).
    exists fuel. cbv zeta. split; [exact H1|]. unfold recv_final_file. rewrite H1. discriminate.
  - destruct (cosim_data_dup sc rc F Hwf eq_refl eq_refl eq_refl eq_refl eq_refl eq_refl eq_refl eq_refl i) as (fuel & H1 & _).
    exists fuel. cbv zeta. split; [exact H1|]. unfold recv_final_file. rewrite H1. discriminate.
  - destruct (cosim_ack_dup sc rc F Hwf eq_refl eq_refl eq_refl eq_refl eq_refl eq_refl eq_refl eq_refl i) as (fuel & H1 & _).
    exists fuel. cbv zeta. split; [exact H1|]. unfold recv_final_file. rewrite H1. discriminate.
  - destruct (cosim_data_hold sc rc F Hwf eq_refl eq_refl eq_refl eq_refl eq_refl eq_refl eq_refl eq_refl i) as (fuel & H1 & _).
    exists fuel. cbv zeta. split; [exact H1|]. unfold recv_final_file. rewrite H1. discriminate.
  - destruct (cosim_ack_hold sc rc F Hwf eq_refl eq_refl eq_refl eq_refl eq_refl eq_refl eq_refl eq_refl i) as (fuel & H1 & _).
    exists fuel. cbv zeta. split; [exact H1|]. unfold recv_final_file. rewrite H1. discriminate.
Qed.
