(** Liveness of the closed system of [Model/Net.v] (duplicate-packets mode off): for every file,
    block size and window size the transfer completes when no datagram is disturbed
    ([cosim_perfect]), when any one DATA datagram is lost ([cosim_data_drop]) and when any one ACK
    is lost ([cosim_ack_drop]; if it was the very last ACK the receiver holds the complete file
    and the sender gives up - RFC 1350's exception).  Time-outs happen at quiescence only. *)
From Coq Require Import ZArith Lia ZifyBool ZifyNat ZifyN.
From Tftp Require Import Base.Prelude Model.Types Model.Consts Model.Codec Model.Window Model.Worker Model.Spec
  Model.Server Model.Net Proofs.ListAux Proofs.CodecP Proofs.SpecP Proofs.WindowP Proofs.SendP Proofs.RecvP Proofs.NetP
  Proofs.CosimP.
Local Open Scope N_scope.
Ltac Zify.zify_post_hook ::= Z.div_mod_to_equations.

(** [x = 1], kept behind a name so that arithmetic tactics do not pick the hypothesis up where it is not needed. *)
Definition rep_one (x : N) : Prop := x = 1.

Section Live.
  Variables (sc : scfg) (rc : rcfg) (F : bytes).
  Hypotheses (Hwf : wf_params (s_blk sc) (s_ws sc))
             (Hblk : r_blk rc = s_blk sc) (Hws : r_ws rc = s_ws sc)
             (Hck : s_check sc = false)
             (Hsf : s_fails sc = []) (Hrf : r_fails rc = [])
             (Hsrep : rep_one (s_rep sc)) (Hrrep : rep_one (r_rep rc))
             (Htmo : 0 < s_tmo sc).

  Local Notation blk := (s_blk sc).
  Local Notation ws := (s_ws sc).
  Local Notation nb := (nblk (s_blk sc) F).

  Lemma Hwfr' : wf_params (r_blk rc) (r_ws rc).
  Proof. rewrite Hblk, Hws. exact Hwf. Qed.

  (** The DATA datagrams of blocks [k, k+n). *)
  Fixpoint datas (k : N) (n : nat) : list bytes :=
    match n with
    | O => []
    | S n' => data_dgram blk F k :: datas (k + 1) n'
    end.

  Lemma datas_app : forall n m k, datas k (n + m) = datas k n ++ datas (k + N.of_nat n) m.
  Proof.
    intros n. induction n as [|n IH]; intros m k.
    - cbn [datas app Nat.add]. f_equal. lia.
    - cbn [datas app Nat.add]. rewrite IH. f_equal. f_equal. f_equal. lia.
  Qed.

  Lemma datas_length : forall n k, length (datas k n) = n.
  Proof. intros n. induction n as [|n IH]; intros k; cbn [datas length]; auto. Qed.

  Lemma window_tx_datas : forall n a,
    sent_bytes (window_tx 1 a (chunks_from blk F a n)) = datas a n.
  Proof.
    intros n. induction n as [|n IH]; intros a; cbn [chunks_from window_tx datas]; [reflexivity|].
    unfold sent_bytes in *. cbn [repeat app filter s_failed negb map s_pk]. rewrite IH. reflexivity.
  Qed.

  (** * The receiver, one datagram at a time *)

  (** Running, [c] blocks accepted, [j] of them still buffered, the file so far is the sender's. *)
  Definition RS (hist : list ev) (st : rstate) (c j : N) : Prop :=
    RInv rc hist st /\ r_phase st = RRun /\ r_cnt st = c /\ lenN (w_elems (r_w st)) = j /\
    concat (accepted (r_blk rc) 0 hist) = takeN (c * blk) F.

  Lemma r_ack_one : forall st next st' out, r_ack rc st next = (st', out) ->
    acked_bytes out = [encode (Ack (r_bn st))] /\ r_phase st' = next /\ r_bn st' = r_bn st /\
    r_w st' = r_w st /\ r_cnt st' = r_cnt st /\ r_retry st' = r_retry st.
  Proof.
    intros st next st' out H. unfold r_ack in H. rewrite Hrf, (Hrrep : r_rep rc = 1), send_packet_nofail in H.
    cbn [N.to_nat Pos.to_nat Pos.iter_op Nat.add repeat] in H. inversion H; subst.
    cbn [r_phase r_bn r_w r_cnt r_retry]. repeat split; reflexivity.
  Qed.

  Lemma receive_data : forall k d,
    receive (r_blk rc) (EvDgram d (data_dgram blk F k)) = RPacket (Data (k mod 65536) (chunk blk F k)).
  Proof. intros k d. rewrite Hblk. apply receive_data_dgram. Qed.

  (** The next block in sequence. *)
  Lemma recv_in_seq : forall hist st c j, RS hist st c j -> c + 1 <= nb ->
    let e := EvDgram 0 (data_dgram blk F (c + 1)) in
    exists st' out, recv_step rc st e = (st', out) /\
      if (c + 1 =? nb) || (j + 1 =? ws) then
        acked_bytes out = [ack_dgram (c + 1)] /\
        (if c + 1 =? nb then r_phase st' = RDone OutOk /\ written_bytes (w_file (r_w st')) = F
         else RS (hist ++ [e]) st' (c + 1) 0)
      else out = [] /\ RS (hist ++ [e]) st' (c + 1) (j + 1).
  Proof.
    intros hist st c j (Hi & Hp & Hc & Hj & Hacc) Hle e.
    pose proof (proj1 Hwf) as Hb. pose proof Hwfr' as Hwr.
    pose proof (receive_data (c + 1) 0) as Hr. fold e in Hr.
    pose proof Hi as (A & B & C & D & E & G & G2 & I & J & K).
    assert (Hseq : (c + 1) mod 65536 = wadd16 (r_bn st) 1) by (unfold wadd16; rewrite E, Hc; lia).
    destruct (recv_step rc st e) as [st1 out] eqn:E1.
    destruct (recv_step_spec _ _ _ _ _ _ Hwr Hi Hp E1) as [Hi1 _].
    assert (Hacc1 : accepted (r_blk rc) 0 (hist ++ [e]) = accepted (r_blk rc) 0 hist ++ [chunk blk F (c + 1)]).
    { rewrite accepted_snoc. unfold accepts. rewrite (I Hp), Hr, N.add_0_l, <- D, Hc. rewrite N.eqb_refl. reflexivity. }
    assert (Hacc2 : concat (accepted (r_blk rc) 0 (hist ++ [e])) = takeN ((c + 1) * blk) F).
    { rewrite Hacc1, concat_app, Hacc. cbn [concat]. rewrite app_nil_r.
      replace (c * blk) with ((c + 1 - 1) * blk) by (f_equal; lia). apply chunk_append. lia. }
    rewrite (step_data_in rc hist st e _ _ Hwr Hi Hp Hr Hseq) in E1. cbv zeta in E1.
    rewrite Hj, Hws in E1. exists st1, out. split; [reflexivity|].
    destruct (N.eqb_spec (c + 1) nb) as [Hlast|Hnot].
    - (* the final block *)
      cbn [orb]. pose proof (chunk_last_short blk F Hb) as Hs. rewrite <- Hlast in Hs.
      rewrite Hblk in E1.
      destruct (N.ltb_spec (lenN (chunk blk F (c + 1))) blk); [|lia]. cbn [orb] in E1.
      destruct (r_ack_one _ _ _ _ E1) as (O1 & O2 & O3 & O4 & O5 & O6). cbn [r_bn] in O1.
      split; [exact O1|]. split; [exact O2|].
      destruct Hi1 as (_ & _ & _ & _ & _ & _ & _ & _ & J1 & _). rewrite O4 in J1 |- *. cbn [r_w w_elems concat w_file] in J1 |- *.
      rewrite app_nil_r in J1. unfold written_bytes in *. cbn [w_file] in *. rewrite J1, Hacc2, Hlast. apply takeN_all.
      assert (Hnn : ~ (nblk blk F < nblk blk F)) by lia. rewrite lt_nblk_iff in Hnn by assumption. lia.
    - (* a full block *)
      assert (Hfull : lenN (chunk blk F (c + 1)) = blk) by (apply chunk_full; [assumption|lia|lia]).
      rewrite Hblk in E1.
      destruct (N.ltb_spec (lenN (chunk blk F (c + 1))) blk); [lia|]. cbn [orb] in E1 |- *.
      destruct (N.eqb_spec (j + 1) ws) as [Hfl|Hnf].
      + destruct (r_ack_one _ _ _ _ E1) as (O1 & O2 & O3 & O4 & O5 & O6). cbn [r_bn r_cnt] in O1, O5.
        split; [exact O1|]. unfold RS. split; [exact Hi1|]. split; [exact O2|]. split; [rewrite O5, Hc; reflexivity|].
        split; [rewrite O4; reflexivity|exact Hacc2].
      + inversion E1; subst st1 out. split; [reflexivity|]. unfold RS. split; [exact Hi1|].
        cbn [r_phase r_cnt r_w w_elems]. split; [reflexivity|]. split; [rewrite Hc; reflexivity|].
        split; [rewrite lenN_app, Hj; reflexivity|exact Hacc2].
  Qed.

  (** A block that is not the next one: ignored while blocks are buffered, answered with the
      last ACK again when nothing is. *)
  Lemma recv_out_seq : forall hist st c j k, RS hist st c j -> k mod 65536 <> (c + 1) mod 65536 ->
    let e := EvDgram 0 (data_dgram blk F k) in
    exists st' out, recv_step rc st e = (st', out) /\ RS (hist ++ [e]) st' c j /\
      acked_bytes out = if j =? 0 then [ack_dgram c] else [].
  Proof.
    intros hist st c j k (Hi & Hp & Hc & Hj & Hacc) Hne e. pose proof Hwfr' as Hwr.
    pose proof (receive_data k 0) as Hr. fold e in Hr.
    pose proof Hi as (A & B & C & D & E & G & G2 & I & J & K).
    assert (Hn : k mod 65536 <> wadd16 (r_bn st) 1) by (unfold wadd16; rewrite E, Hc; lia).
    destruct (recv_out_of_sequence rc st e _ _ Hp Hr Hn) as (st' & out & E1 & F1 & F2 & F3 & F4 & F5 & F6 & F7).
    exists st', out. split; [exact E1|].
    destruct (recv_step_spec _ _ _ _ _ _ Hwr Hi Hp E1) as [Hi1 _].
    assert (Hacc1 : accepted (r_blk rc) 0 (hist ++ [e]) = accepted (r_blk rc) 0 hist).
    { rewrite accepted_snoc. unfold accepts. rewrite (I Hp), Hr, N.add_0_l, <- D, Hc.
      destruct (N.eqb_spec (k mod 65536) ((c + 1) mod 65536)); [contradiction|]. apply app_nil_r. }
    destruct (N.eqb_spec j 0) as [Hz|Hnz].
    - (* nothing buffered: the last ACK again *)
      assert (Hnil : w_elems (r_w st) = []) by (apply lenN_0_nil; lia).
      unfold recv_step in E1. rewrite Hp, Hr in E1.
      destruct (N.eqb_spec (k mod 65536) (wadd16 (r_bn st) 1)); [contradiction|].
      rewrite (proj2 (w_is_empty_iff _) Hnil) in E1.
      destruct (r_ack_one _ _ _ _ E1) as (O1 & O2 & O3 & O4 & O5 & O6).
      split; [|rewrite O1, E, Hc; reflexivity].
      unfold RS. split; [exact Hi1|]. split; [exact O2|]. split; [rewrite O5; exact Hc|].
      split; [rewrite O4; exact Hj|rewrite Hacc1; exact Hacc].
    - assert (Hne2 : w_elems (r_w st) <> []) by (intros Z; rewrite Z in Hj; cbn in Hj; lia).
      destruct (F6 Hne2) as [-> ->]. split; [|reflexivity].
      unfold RS. split; [exact Hi1|]. split; [exact Hp|]. split; [exact Hc|]. split; [exact Hj|rewrite Hacc1; exact Hacc].
  Qed.

  (** * The sender, one event at a time *)

  Definition wlen (st : sstate) : N := lenN (w_elems (s_w st)).

  (** In the window whose first block is [a + 1], the whole window sent, the timer just started. *)
  Definition SS (st : sstate) (a r : N) : Prop :=
    SInv sc F st /\ s_phase st = SInWindow /\ tight sc st /\ s_abs st = a + 1 /\ s_since st = 0 /\ s_retry st = r.

  Lemma SS_len : forall st a r, SS st a r -> a < nb /\ wlen st = N.min ws (nb - a) /\ 1 <= wlen st.
  Proof.
    intros st a r ((Hc & _ & Hne) & Hp & Ht & Ha & _). specialize (Hne Hp).
    destruct Hc as (A & B & C & D & E & G & I & J & K & L). unfold wlen.
    assert (lenN (w_elems (s_w st)) <> 0) by (intros Z; apply lenN_0_nil in Z; congruence).
    destruct Ht as [Ht|Ht].
    - destruct (s_filled st); lia.
    - rewrite Ht in K. lia.
  Qed.

  Lemma SS_window : forall st a r, SS st a r ->
    sent_bytes (window_tx 1 (s_abs st) (w_elems (s_w st))) = datas (a + 1) (N.to_nat (wlen st)).
  Proof.
    intros st a r ((Hc & _) & _ & _ & Ha & _). destruct Hc as (_ & _ & _ & _ & _ & _ & I & _).
    rewrite I, Ha. unfold wlen, lenN. rewrite Nat2N.id. apply window_tx_datas.
  Qed.

  Lemma inner_top_fires : forall st, SCore sc F st -> s_tmo sc <= s_since st ->
    s_inner_top sc st =
      (mk_sstate (s_bn st) (s_w st) (s_filled st) (s_retry st) 0 (s_nsent st + 1 * lenN (w_elems (s_w st)))
                 (s_phase st) (s_abs st),
       window_tx 1 (s_abs st) (w_elems (s_w st))).
  Proof.
    intros st Hc Ht. unfold s_inner_top. destruct (N.leb_spec (s_tmo sc) (s_since st)); [|lia].
    destruct Hc as (_ & _ & _ & _ & Hbn & _). rewrite Hsf, (Hsrep : s_rep sc = 1), Hbn, send_window_nofail. reflexivity.
  Qed.

  Lemma outer_top_out : forall st st' out, SCore sc F st ->
    (s_filled st = true -> lenN (w_elems (s_w st)) < ws) ->
    (s_filled st = false -> w_elems (s_w st) <> []) ->
    s_outer_top sc st = (st', out) ->
    SS st' (s_abs st - 1) 0 /\ out = window_tx 1 (s_abs st') (w_elems (s_w st')).
  Proof.
    intros st st' out Hc Hlt Hne H.
    destruct (outer_top_tight sc F st st' out Hwf Hsf Hc Hlt Hne H) as (Hi & Hp & Ht & Ha).
    assert (Habs : 1 <= s_abs st) by (destruct Hc as (_ & _ & _ & D & _); exact D).
    assert (X : s_since st' = 0 /\ s_retry st' = 0 /\ out = window_tx 1 (s_abs st') (w_elems (s_w st'))).
    { unfold s_outer_top in H. destruct (s_filled st) eqn:Hf.
      - destruct (fill_send _ _ _ Hwf Hc Hf) as (w' & full & Fl & Hcore & _). rewrite Fl in H.
        rewrite inner_top_fires in H by (try apply Hcore; try exact max_retries_pos; cbn [s_since]; lia).
        inversion H; subst. cbn [s_since s_retry s_abs s_w]. repeat split; reflexivity.
      - rewrite inner_top_fires in H.
        + inversion H; subst. cbn [s_since s_retry s_abs s_w]. repeat split; reflexivity.
        + eapply SCore_ext; [..|exact Hc]; try reflexivity; try exact max_retries_pos. cbn [s_filled]. symmetry. exact Hf.
        + cbn [s_since]. lia. }
    destruct X as (X1 & X2 & X3). split; [|exact X3].
    unfold SS. split; [exact Hi|]. split; [exact Hp|]. split; [exact Ht|]. split; [rewrite Ha; lia|]. split; assumption.
  Qed.

  (** The ACK of the whole window: the transfer ends, or the next window goes out. *)
  Lemma send_ack_window : forall st a r, SS st a r ->
    let e := EvDgram 0 (ack_dgram (a + wlen st)) in
    exists st' out, send_step sc st e = (st', out) /\
      if a + wlen st =? nb then out = [] /\ s_phase st' = SDone OutOk
      else SS st' (a + wlen st) 0 /\ sent_bytes out = datas (a + wlen st + 1) (N.to_nat (wlen st')).
  Proof.
    intros st a r Hss e. pose proof (SS_len _ _ _ Hss) as (Ha & Hlen & Hpos).
    destruct Hss as (Hi & Hp & Ht & Habs & Hsince & Hretry). unfold wlen in *.
    pose proof Hi as [Hc [_ Hne]]. specialize (Hne Hp).
    pose proof Hc as (A & B & C & D & E & G & I & J & K & L).
    set (len := lenN (w_elems (s_w st))) in *.
    pose proof (receive_ack_dgram (a + len) 0) as Hr. fold e in Hr.
    assert (Hd : wsub16 ((a + len) mod 65536) (s_bn st) = len - 1).
    { rewrite E. destruct Hwf as (_ & _ & Hw). rewrite (wsub16_in_window (s_abs st) (a + len) len) by lia. lia. }
    destruct (step_ack_in sc F st e _ Hwf Hi Hp Hr ltac:(rewrite Hd; lia)) as (w' & Hrm & Hel & Hc2 & Hstep).
    rewrite Hd in *. replace (len - 1 + 1) with len in * by lia.
    assert (Hemp : w_is_empty w' = true).
    { apply w_is_empty_iff. apply lenN_0_nil. rewrite Hel, lenN_dropN. fold len. lia. }
    rewrite Hstep, Hemp, andb_true_r.
    destruct (s_filled st) eqn:Hf; cbn [negb].
    - (* more to send *)
      destruct (N.eqb_spec (a + len) nb) as [Hx|_]; [lia|].
      match goal with |- exists st' out, s_outer_top sc ?x = _ /\ _ => set (st2 := x) in * end.
      destruct (s_outer_top sc st2) as [st3 out] eqn:Eo. exists st3, out. split; [reflexivity|].
      destruct (outer_top_out st2 st3 out Hc2) as [Hss3 Hout]; try exact Eo.
      + intros _. unfold st2. cbn [s_w]. apply w_is_empty_iff in Hemp. rewrite Hemp. cbn. destruct Hwf as (_ & ? & _). lia.
      + unfold st2. cbn [s_filled]. discriminate.
      + replace (s_abs st2 - 1) with (a + len) in Hss3 by (unfold st2; cbn [s_abs]; lia).
        split; [exact Hss3|]. rewrite Hout. rewrite (SS_window _ _ _ Hss3). reflexivity.
    - (* that was the final block *)
      destruct (N.eqb_spec (a + len) nb) as [_|Hx]; [|lia].
      eexists. eexists. split; [reflexivity|]. split; reflexivity.
  Qed.

  (** An ACK for the block just before the window (a repeated ACK): nothing happens. *)
  Lemma send_stale : forall st a r, SS st a r ->
    exists st', send_step sc st (EvDgram 0 (ack_dgram a)) = (st', []) /\ SS st' a r /\ wlen st' = wlen st.
  Proof.
    intros st a r Hss. pose proof (SS_len _ _ _ Hss) as (Ha & Hlen & Hpos).
    destruct Hss as (Hi & Hp & Ht & Habs & Hsince & Hretry).
    pose proof (receive_ack_dgram a 0) as Hr.
    pose proof Hi as [(A & B & C & D & E & G & I & J & K & L) _].
    assert (Hout : ~ (wsub16 (a mod 65536) (s_bn st) < lenN (w_elems (s_w st)))).
    { rewrite E, Habs. unfold wsub16. unfold wlen in *. destruct Hwf as (_ & _ & Hw). lia. }
    exists (with_since st 0). split.
    - apply (stale_ack_is_inert sc F st _ _ Hwf Hi Hp Hr Hout). cbn [ev_delay]. lia.
    - split; [|reflexivity]. unfold SS. cbn [with_since s_phase s_abs s_since s_retry].
      split; [apply with_since_inv; exact Hi|]. split; [exact Hp|]. split; [exact Ht|]. split; [exact Habs|]. split; [lia|exact Hretry].
  Qed.

  (** The time-out: the whole window again, one more failed attempt on the count. *)
  Lemma send_retx : forall st a r, SS st a r -> r + 1 < max_retries ->
    exists st' out, send_step sc st (EvFail (s_tmo sc)) = (st', out) /\ SS st' a (r + 1) /\ wlen st' = wlen st /\
      sent_bytes out = datas (a + 1) (N.to_nat (wlen st)).
  Proof.
    intros st a r Hss Hr. pose proof (SS_window _ _ _ Hss) as Hwin.
    destruct Hss as (Hi & Hp & Ht & Habs & Hsince & Hretry).
    rewrite step_failed_attempt by (auto; exact I). cbn [ev_delay].
    destruct (N.eqb_spec (s_retry st + 1) max_retries) as [Eq|Ne]; [lia|].
    pose proof Hi as [Hc [Hq Hn]].
    rewrite inner_top_fires.
    - eexists. eexists. split; [reflexivity|]. cbn [s_abs s_w]. split; [|split; [reflexivity|exact Hwin]].
      unfold SS. cbn [s_phase s_abs s_since s_retry]. split.
      + split; [|split; [intros X; discriminate|intros _; apply Hn; exact Hp]].
        eapply SCore_ext; [..|exact Hc]; try reflexivity. cbn [s_retry]. lia.
      + split; [reflexivity|]. split; [exact Ht|]. split; [exact Habs|]. split; [reflexivity|lia].
    - eapply SCore_ext; [..|exact Hc]; try reflexivity. cbn [s_retry]. lia.
    - cbn [s_since]. lia.
  Qed.

  (** * The closed system *)
  Section Pair.
  Variables (f_sr f_rs : list (N * fault)).
  Local Notation step := (pair_step sc rc f_sr f_rs).
  Local Notation run := (pair_run sc rc f_sr f_rs).

  Lemma run_stuck : forall b p, step p = None -> run b p = p.
  Proof. intros b p H. destruct b; cbn [pair_run]; [reflexivity|rewrite H; reflexivity]. Qed.

  Lemma run_add : forall a b p, run (a + b) p = run b (run a p).
  Proof.
    intros a. induction a as [|a IH]; intros b p; cbn [Nat.add pair_run]; [reflexivity|].
    destruct (step p) as [p'|] eqn:E; [apply IH|]. symmetry. apply run_stuck. exact E.
  Qed.

  Definition clean (fs : list (N * fault)) (lo hi : N) : Prop :=
    forall i, lo <= i < hi -> fault_at fs i = NfDeliver.

  Lemma chan_puts_app : forall fs a b c, chan_puts fs c (a ++ b) = chan_puts fs (chan_puts fs c a) b.
  Proof. intros. unfold chan_puts. apply fold_left_app. Qed.

  Lemma chan_put_clean : forall fs d q n, fault_at fs n = NfDeliver ->
    chan_put fs (mk_chan q None n) d = mk_chan (q ++ [d]) None (n + 1).
  Proof. intros fs d q n H. unfold chan_put. cbn [ch_n ch_held ch_q]. rewrite H. reflexivity. Qed.

  Lemma chan_puts_cons : forall fs d ds c, chan_puts fs c (d :: ds) = chan_puts fs (chan_put fs c d) ds.
  Proof. reflexivity. Qed.

  Lemma chan_puts_clean : forall fs ds q n, clean fs n (n + lenN ds) ->
    chan_puts fs (mk_chan q None n) ds = mk_chan (q ++ ds) None (n + lenN ds).
  Proof.
    intros fs ds. induction ds as [|d ds IH]; intros q n Hc.
    - unfold chan_puts. cbn [fold_left]. rewrite app_nil_r, lenN_nil, N.add_0_r. reflexivity.
    - rewrite chan_puts_cons, chan_put_clean by (apply Hc; rewrite lenN_cons; lia). rewrite IH.
      + rewrite <- app_assoc, lenN_cons. cbn [app]. f_equal. lia.
      + intros i Hi. apply Hc. rewrite lenN_cons. lia.
  Qed.

  Lemma chan_puts_drop : forall fs d q n, fault_at fs n = NfDrop ->
    chan_puts fs (mk_chan q None n) [d] = mk_chan q None (n + 1).
  Proof. intros fs d q n H. unfold chan_puts. cbn [fold_left]. unfold chan_put. cbn [ch_n ch_held ch_q]. rewrite H. reflexivity. Qed.

  (** ** Single steps *)

  Lemma step_recv : forall s r d q h n rs, r_phase r = RRun ->
    step (mk_pair s r (mk_chan (d :: q) h n) rs) =
      Some (mk_pair s (fst (recv_step rc r (EvDgram 0 d))) (mk_chan q h n)
                    (chan_puts f_rs rs (acked_bytes (snd (recv_step rc r (EvDgram 0 d)))))).
  Proof.
    intros s r d q h n rs Hp. unfold pair_step. cbn [p_sr p_r p_s p_rs ch_q ch_held ch_n]. unfold r_running. rewrite Hp.
    destruct (recv_step rc r (EvDgram 0 d)) as [r' out]. reflexivity.
  Qed.

  Lemma step_send : forall s r h n d q h' n', s_phase s = SInWindow ->
    step (mk_pair s r (mk_chan [] h n) (mk_chan (d :: q) h' n')) =
      Some (mk_pair (fst (send_step sc s (EvDgram 0 d))) r
                    (chan_puts f_sr (mk_chan [] h n) (sent_bytes (snd (send_step sc s (EvDgram 0 d)))))
                    (mk_chan q h' n')).
  Proof.
    intros s r h n d q h' n' Hp. unfold pair_step. cbn [p_sr p_r p_s p_rs ch_q ch_held ch_n]. unfold s_running. rewrite Hp.
    destruct (send_step sc s (EvDgram 0 d)) as [s' out]. reflexivity.
  Qed.

  Lemma step_tmo : forall s r h n h' n', s_phase s = SInWindow ->
    step (mk_pair s r (mk_chan [] h n) (mk_chan [] h' n')) =
      Some (mk_pair (fst (send_step sc s (EvFail (s_tmo sc)))) r
                    (chan_puts f_sr (mk_chan [] h n) (sent_bytes (snd (send_step sc s (EvFail (s_tmo sc))))))
                    (mk_chan [] h' n')).
  Proof.
    intros s r h n h' n' Hp. unfold pair_step. cbn [p_sr p_r p_s p_rs ch_q ch_held ch_n]. unfold s_running. rewrite Hp.
    destruct (send_step sc s (EvFail (s_tmo sc))) as [s' out]. reflexivity.
  Qed.

  (** ** The receiver drains its queue *)

  Lemma drain_in_seq : forall n hist r c j s q h nn rs, RS hist r c j -> (1 <= n)%nat ->
    c + N.of_nat n <= nb -> j + N.of_nat n <= ws ->
    (c + N.of_nat n = nb \/ j + N.of_nat n = ws) ->
    exists r', run n (mk_pair s r (mk_chan (datas (c + 1) n ++ q) h nn) rs) =
                 mk_pair s r' (mk_chan q h nn) (chan_puts f_rs rs [ack_dgram (c + N.of_nat n)]) /\
      if c + N.of_nat n =? nb then r_phase r' = RDone OutOk /\ written_bytes (w_file (r_w r')) = F
      else exists hist', RS hist' r' (c + N.of_nat n) 0.
  Proof.
    intros n. induction n as [|n IH]; intros hist r c j s q h nn rs Hrs Hn Hc Hj Hlast; [lia|].
    cbn [datas app pair_run]. rewrite step_recv by apply Hrs.
    destruct (recv_in_seq hist r c j Hrs ltac:(lia)) as (st' & out & E & Hres). rewrite E. cbn [fst snd].
    destruct n as [|n].
    - (* the last one: flushed and acknowledged *)
      cbn [datas app pair_run]. replace (c + N.of_nat 1) with (c + 1) in * by lia.
      assert (Hfl : (c + 1 =? nb) || (j + 1 =? ws) = true) by (destruct Hlast; lia).
      rewrite Hfl in Hres. destruct Hres as [Hout Hst]. rewrite Hout. exists st'. split; [reflexivity|].
      destruct (c + 1 =? nb); [exact Hst|eexists; exact Hst].
    - assert (Hfl : (c + 1 =? nb) || (j + 1 =? ws) = false) by lia.
      rewrite Hfl in Hres. destruct Hres as [-> Hst]. cbn [acked_bytes sent_bytes map filter].
      change (chan_puts f_rs rs []) with rs.
      destruct (IH _ st' (c + 1) (j + 1) s q h nn rs Hst ltac:(lia) ltac:(lia) ltac:(lia) ltac:(lia)) as (r' & Hrun & Hfin).
      replace (c + 1 + N.of_nat (S n)) with (c + N.of_nat (S (S n))) in * by lia.
      exists r'. split; [exact Hrun|exact Hfin].
  Qed.

  Lemma drain_out_seq : forall n k hist r c j s q h nn rs, RS hist r c j ->
    (forall i, (i < n)%nat -> (k + N.of_nat i) mod 65536 <> (c + 1) mod 65536) ->
    exists r' hist', run n (mk_pair s r (mk_chan (datas k n ++ q) h nn) rs) =
        mk_pair s r' (mk_chan q h nn) (chan_puts f_rs rs (if j =? 0 then repeat (ack_dgram c) n else [])) /\
      RS hist' r' c j.
  Proof.
    intros n. induction n as [|n IH]; intros k hist r c j s q h nn rs Hrs Hne.
    - cbn [datas app pair_run repeat]. exists r, hist. split; [|exact Hrs]. destruct (j =? 0); reflexivity.
    - cbn [datas app pair_run]. rewrite step_recv by apply Hrs.
      destruct (recv_out_seq hist r c j k Hrs) as (st' & out & E & Hst & Hout).
      { specialize (Hne O ltac:(lia)). replace (k + N.of_nat 0) with k in Hne by lia. exact Hne. }
      rewrite E. cbn [fst snd]. rewrite Hout.
      destruct (IH (k + 1) _ st' c j s q h nn (chan_puts f_rs rs (if j =? 0 then [ack_dgram c] else [])) Hst) as (r' & hist' & Hrun & Hfin).
      { intros i Hi. specialize (Hne (S i) ltac:(lia)). replace (k + 1 + N.of_nat i) with (k + N.of_nat (S i)) by lia. exact Hne. }
      exists r', hist'. split; [|exact Hfin]. rewrite Hrun. f_equal.
      destruct (j =? 0); [|reflexivity]. cbn [repeat]. reflexivity.
  Qed.

  (** ** The sender discards repeated ACKs *)

  Lemma drain_stale : forall n s a r0 rr h nn q h' n', SS s a r0 ->
    exists s', run n (mk_pair s rr (mk_chan [] h nn) (mk_chan (repeat (ack_dgram a) n ++ q) h' n')) =
                 mk_pair s' rr (mk_chan [] h nn) (mk_chan q h' n') /\ SS s' a r0 /\ wlen s' = wlen s.
  Proof.
    intros n. induction n as [|n IH]; intros s a r0 rr h nn q h' n' Hss.
    - cbn [repeat app pair_run]. exists s. split; [reflexivity|]. split; [exact Hss|reflexivity].
    - cbn [repeat app pair_run]. rewrite step_send by apply Hss.
      destruct (send_stale s a r0 Hss) as (s1 & E & Hss1 & Hl1). rewrite E. cbn [fst snd sent_bytes map filter].
      change (chan_puts f_sr (mk_chan [] h nn) []) with (mk_chan [] h nn).
      destruct (IH s1 a r0 rr h nn q h' n' Hss1) as (s' & Hrun & Hss' & Hl').
      exists s'. split; [exact Hrun|]. split; [exact Hss'|]. rewrite Hl'. exact Hl1.
  Qed.

  (** ** One round *)

  (** First half: the receiver takes the window (ignoring the blocks it already holds) and
      acknowledges it; then the sender discards the repeated ACKs that were queued before. *)
  Lemma half_a : forall s r a r0 j0 stale hist n1 n2 tail h2, SS s a r0 -> RS hist r (a + j0) j0 -> j0 < wlen s ->
    chan_puts f_rs (mk_chan (repeat (ack_dgram a) stale) None n2) [ack_dgram (a + wlen s)] =
      mk_chan (repeat (ack_dgram a) stale ++ tail) h2 (n2 + 1) ->
    exists s' r',
      run (N.to_nat (wlen s) + stale) (mk_pair s r (mk_chan (datas (a + 1) (N.to_nat (wlen s))) None n1)
                                               (mk_chan (repeat (ack_dgram a) stale) None n2)) =
        mk_pair s' r' (mk_chan [] None n1) (mk_chan tail h2 (n2 + 1)) /\
      SS s' a r0 /\ wlen s' = wlen s /\
      if a + wlen s =? nb then r_phase r' = RDone OutOk /\ written_bytes (w_file (r_w r')) = F
      else exists hist', RS hist' r' (a + wlen s) 0.
  Proof.
    intros s r a r0 j0 stale hist n1 n2 tail h2 Hss Hrs Hj Hput.
    pose proof (SS_len _ _ _ Hss) as (Ha & Hlen & Hpos). set (m := wlen s) in *.
    set (j0' := N.to_nat j0). set (n' := N.to_nat (m - j0)).
    replace (N.to_nat m + stale)%nat with (j0' + (n' + stale))%nat by (unfold j0', n'; lia).
    replace (N.to_nat m) with (j0' + n')%nat by (unfold j0', n'; lia).
    rewrite datas_app, !run_add.
    (* the blocks already held are ignored *)
    destruct (drain_out_seq j0' (a + 1) hist r (a + j0) j0 s (datas (a + 1 + N.of_nat j0') n') None n1
                (mk_chan (repeat (ack_dgram a) stale) None n2) Hrs) as (r1 & hist1 & Hrun1 & Hrs1).
    { intros i Hi. unfold j0' in Hi. destruct Hwf as (_ & _ & Hw). lia. }
    rewrite Hrun1.
    replace (if j0 =? 0 then repeat (ack_dgram (a + j0)) j0' else []) with (@nil bytes)
      by (destruct (N.eqb_spec j0 0) as [->|]; reflexivity).
    change (chan_puts f_rs (mk_chan (repeat (ack_dgram a) stale) None n2) []) with (mk_chan (repeat (ack_dgram a) stale) None n2).
    (* the rest is accepted, the last one flushes the window and is acknowledged *)
    replace (a + 1 + N.of_nat j0') with (a + j0 + 1) by (unfold j0'; lia).
    rewrite <- (app_nil_r (datas (a + j0 + 1) n')).
    destruct (drain_in_seq n' hist1 r1 (a + j0) j0 s [] None n1 (mk_chan (repeat (ack_dgram a) stale) None n2) Hrs1)
      as (r2 & Hrun2 & Hfin2); try (unfold n'; lia).
    rewrite Hrun2. replace (a + j0 + N.of_nat n') with (a + m) in * by (unfold n'; lia).
    rewrite Hput.
    (* the sender reads the repeated ACKs *)
    destruct (drain_stale stale s a r0 r2 None n1 tail h2 (n2 + 1) Hss) as (s' & Hrun3 & Hss' & Hl').
    rewrite Hrun3. exists s', r2. split; [reflexivity|]. split; [exact Hss'|]. split; [exact Hl'|exact Hfin2].
  Qed.

  Definition Final (p : pair_state) : Prop :=
    r_phase (p_r p) = RDone OutOk /\ written_bytes (w_file (r_w (p_r p))) = F /\ s_phase (p_s p) = SDone OutOk.

  (** The synchronisation point of a round: the sender has just sent the window after block [a];
      the receiver holds the blocks up to [a + j0], [j0] of them still buffered; [stale] repeated
      ACKs of block [a] are still queued. *)
  Definition sync_state (s : sstate) (r : rstate) (a n1 n2 : N) (stale : nat) : pair_state :=
    mk_pair s r (mk_chan (datas (a + 1) (N.to_nat (wlen s))) None n1) (mk_chan (repeat (ack_dgram a) stale) None n2).

  (** The state right after the sender handed the window after block [a] to the network
      (what the faults make of it is still inside [chan_puts]). *)
  Definition emit_state (s : sstate) (r : rstate) (a n1 n2 : N) (stale : nat) : pair_state :=
    mk_pair s r (chan_puts f_sr (mk_chan [] None n1) (datas (a + 1) (N.to_nat (wlen s))))
            (mk_chan (repeat (ack_dgram a) stale) None n2).

  Lemma emit_clean : forall s r a n1 n2 stale, clean f_sr n1 (n1 + wlen s) ->
    emit_state s r a n1 n2 stale = sync_state s r a (n1 + wlen s) n2 stale.
  Proof.
    intros s r a n1 n2 stale Hc. unfold emit_state, sync_state. rewrite chan_puts_clean.
    - cbn [app]. unfold lenN. rewrite datas_length, N2Nat.id. reflexivity.
    - unfold lenN. rewrite datas_length, N2Nat.id. exact Hc.
  Qed.

  (** A whole round whose ACK is delivered: the transfer is over, or the next window has been emitted. *)
  Lemma round_gen : forall s r a r0 j0 stale hist n1 n2, SS s a r0 -> RS hist r (a + j0) j0 -> j0 < wlen s ->
    fault_at f_rs n2 = NfDeliver ->
    exists fuel p', run fuel (sync_state s r a n1 n2 stale) = p' /\
      if a + wlen s =? nb then Final p'
      else exists s' r' hist', p' = emit_state s' r' (a + wlen s) n1 (n2 + 1) 0 /\
             SS s' (a + wlen s) 0 /\ RS hist' r' (a + wlen s) 0.
  Proof.
    intros s r a r0 j0 stale hist n1 n2 Hss Hrs Hj Hf2. unfold sync_state.
    destruct (half_a s r a r0 j0 stale hist n1 n2 [ack_dgram (a + wlen s)] None Hss Hrs Hj) as (s1 & r1 & Hrun1 & Hss1 & Hl1 & Hfin1).
    { rewrite chan_puts_clean; [reflexivity|]. intros i Hi. rewrite lenN_cons, lenN_nil in Hi. replace i with n2 by lia. exact Hf2. }
    exists (N.to_nat (wlen s) + stale + 1)%nat. eexists. split; [reflexivity|].
    rewrite run_add, Hrun1. cbn [pair_run]. rewrite step_send by apply Hss1.
    rewrite <- Hl1. destruct (send_ack_window s1 a r0 Hss1) as (s2 & out & E & Hres). rewrite E. cbn [fst snd].
    rewrite Hl1 in *. destruct (N.eqb_spec (a + wlen s) nb) as [Hlast|Hnot].
    - destruct Hres as [-> Hd]. cbn [sent_bytes map filter].
      change (chan_puts f_sr (mk_chan [] None n1) []) with (mk_chan [] None n1).
      unfold Final. cbn [p_r p_s]. destruct Hfin1 as [Hp Hfile]. repeat split; assumption.
    - destruct Hres as [Hss2 Hout]. destruct Hfin1 as [hist' Hrs']. rewrite Hout.
      exists s2, r1, hist'. split; [reflexivity|split; assumption].
  Qed.

  Definition clean_from (fs : list (N * fault)) (lo : N) : Prop := forall i, lo <= i -> fault_at fs i = NfDeliver.

  (** From a synchronisation point on, with undisturbed channels, the transfer completes. *)
  Lemma perfect_from_sync : forall k s r a r0 j0 stale hist n1 n2, nb - a <= N.of_nat k ->
    SS s a r0 -> RS hist r (a + j0) j0 -> j0 < wlen s -> clean_from f_sr n1 -> clean_from f_rs n2 ->
    exists fuel, Final (run fuel (sync_state s r a n1 n2 stale)).
  Proof.
    intros k. induction k as [|k IH]; intros s r a r0 j0 stale hist n1 n2 Hk Hss Hrs Hj Hc1 Hc2;
      pose proof (SS_len _ _ _ Hss) as (Ha & Hlen & Hpos); [lia|].
    destruct (round_gen s r a r0 j0 stale hist n1 n2 Hss Hrs Hj) as (fuel & p' & Hrun & Hres).
    { apply Hc2. lia. }
    destruct (N.eqb_spec (a + wlen s) nb) as [Hlast|Hnot].
    - exists fuel. rewrite Hrun. exact Hres.
    - destruct Hres as (s' & r' & hist' & -> & Hss' & Hrs').
      pose proof (SS_len _ _ _ Hss') as (_ & _ & Hpos').
      rewrite emit_clean in Hrun by (intros i Hi; apply Hc1; lia).
      destruct (IH s' r' (a + wlen s) 0 0 O hist' (n1 + wlen s') (n2 + 1)) as (fuel2 & Hfin); try assumption; try lia.
      + replace (a + wlen s + 0) with (a + wlen s) by lia. exact Hrs'.
      + intros i Hi. apply Hc1. lia.
      + intros i Hi. apply Hc2. lia.
      + exists (fuel + fuel2)%nat. rewrite run_add, Hrun. exact Hfin.
  Qed.

  (** ** The first window *)

  Lemma init_emit : exists s0, pair_init sc rc f_sr F = emit_state s0 (recv_init rc) 0 0 0 0 /\ SS s0 0 0.
  Proof.
    unfold pair_init. destruct (send_init sc F) as [s0 out0] eqn:E0. unfold send_init in E0. rewrite Hck in E0.
    set (st0 := mk_sstate 1 (window_new (s_ws sc) (s_blk sc) (file_for_read F)) true 0 0 0 SInWindow 1) in *.
    assert (Hc0 : SCore sc F st0).
    { unfold SCore, st0. cbn [s_w s_bn s_abs s_filled s_retry window_new w_elems w_size w_chunk w_file
                              file_for_read f_mode f_rest length chunks_from].
      rewrite lenN_nil. destruct Hwf as (Hb & Hw1 & Hw2). pose proof (nblk_pos (s_blk sc) F).
      repeat split; try reflexivity; try lia. }
    destruct (outer_top_out st0 s0 out0 Hc0) as [Hss Hout]; try exact E0.
    - intros _. unfold st0. cbn [s_w window_new w_elems]. rewrite lenN_nil. destruct Hwf as (_ & ? & _). lia.
    - discriminate.
    - change (s_abs st0 - 1) with 0 in Hss. exists s0. split; [|exact Hss].
      unfold emit_state, chan_empty. cbn [repeat]. rewrite Hout, (SS_window _ _ _ Hss). reflexivity.
  Qed.

  Lemma recv_init_RS : RS [] (recv_init rc) 0 0.
  Proof.
    unfold RS. split; [apply recv_init_inv; exact Hwfr'|]. repeat split.
  Qed.

  (** C04 / C14, closed system, liveness without interference: for every file, block size and
      window size the download / upload completes on both sides with exactly the file. *)
  Theorem cosim_perfect_gen : clean_from f_sr 0 -> clean_from f_rs 0 ->
    exists fuel, Final (run fuel (pair_init sc rc f_sr F)).
  Proof.
    intros Hc1 Hc2. destruct init_emit as (s0 & -> & Hss). pose proof (SS_len _ _ _ Hss) as (_ & _ & Hpos).
    rewrite emit_clean by (intros i Hi; apply Hc1; lia).
    apply (perfect_from_sync (N.to_nat nb) s0 (recv_init rc) 0 0 0 O [] _ _); try assumption; try lia.
    - exact recv_init_RS.
    - intros i Hi. apply Hc1. lia.
  Qed.

  (** ** One lost DATA datagram *)

  (** In-sequence blocks that neither fill the window nor end the file are buffered silently. *)
  Lemma drain_buffer : forall n hist r c j s q h nn rs, RS hist r c j ->
    c + N.of_nat n < nb -> j + N.of_nat n < ws ->
    exists r' hist', run n (mk_pair s r (mk_chan (datas (c + 1) n ++ q) h nn) rs) =
                 mk_pair s r' (mk_chan q h nn) rs /\ RS hist' r' (c + N.of_nat n) (j + N.of_nat n).
  Proof.
    intros n. induction n as [|n IH]; intros hist r c j s q h nn rs Hrs Hc Hj.
    - cbn [datas app pair_run]. exists r, hist. split; [reflexivity|].
      replace (c + N.of_nat 0) with c by lia. replace (j + N.of_nat 0) with j by lia. exact Hrs.
    - cbn [datas app pair_run]. rewrite step_recv by apply Hrs.
      destruct (recv_in_seq hist r c j Hrs ltac:(lia)) as (st' & out & E & Hres). rewrite E. cbn [fst snd].
      assert (Hfl : (c + 1 =? nb) || (j + 1 =? ws) = false) by lia.
      rewrite Hfl in Hres. destruct Hres as [-> Hst]. cbn [acked_bytes sent_bytes map filter].
      change (chan_puts f_rs rs []) with rs.
      destruct (IH _ st' (c + 1) (j + 1) s q h nn rs Hst ltac:(lia) ltac:(lia)) as (r' & hist' & Hrun & Hfin).
      exists r', hist'. split; [exact Hrun|].
      replace (c + N.of_nat (S n)) with (c + 1 + N.of_nat n) by lia.
      replace (j + N.of_nat (S n)) with (j + 1 + N.of_nat n) by lia. exact Hfin.
  Qed.

  (** A window emitted with its [g]-th datagram (counted from 0) lost. *)
  Lemma emit_gap : forall s r a n1 n2 stale g, N.of_nat g < wlen s ->
    clean f_sr n1 (n1 + N.of_nat g) -> fault_at f_sr (n1 + N.of_nat g) = NfDrop ->
    clean f_sr (n1 + N.of_nat g + 1) (n1 + wlen s) ->
    emit_state s r a n1 n2 stale =
      mk_pair s r (mk_chan (datas (a + 1) g ++ datas (a + N.of_nat g + 2) (N.to_nat (wlen s) - g - 1)) None (n1 + wlen s))
              (mk_chan (repeat (ack_dgram a) stale) None n2).
  Proof.
    intros s r a n1 n2 stale g Hg Hc1 Hd Hc2. unfold emit_state. f_equal.
    replace (N.to_nat (wlen s)) with (g + (1 + (N.to_nat (wlen s) - g - 1)))%nat at 1 by lia.
    rewrite !datas_app, !chan_puts_app. rewrite chan_puts_clean by (unfold lenN; rewrite datas_length; exact Hc1).
    unfold lenN at 1. rewrite datas_length. cbn [datas app]. rewrite chan_puts_drop by exact Hd.
    rewrite chan_puts_clean.
    - unfold lenN. rewrite datas_length. f_equal; [f_equal; f_equal; lia|lia].
    - unfold lenN. rewrite datas_length. intros i Hi. apply Hc2. lia.
  Qed.

  Lemma one_retry : 0 + 1 < max_retries.
  Proof. reflexivity. Qed.

  (** Recovery: the receiver buffers what came before the gap and ignores (or re-acknowledges)
      what came after it; everything falls silent; the sender's timer fires and the whole window
      goes out again - a synchronisation point at which the receiver already holds [g] blocks. *)
  Lemma gap_recovery : forall s r a stale hist n1 n2 g, SS s a 0 -> RS hist r a 0 -> N.of_nat g < wlen s ->
    clean f_sr n1 (n1 + wlen s) -> clean_from f_rs n2 ->
    exists fuel s' r' hist' n2',
      run fuel (mk_pair s r (mk_chan (datas (a + 1) g ++ datas (a + N.of_nat g + 2) (N.to_nat (wlen s) - g - 1)) None n1)
                        (mk_chan (repeat (ack_dgram a) stale) None n2)) =
        sync_state s' r' a (n1 + wlen s') n2' 0 /\
      SS s' a 1 /\ RS hist' r' (a + N.of_nat g) (N.of_nat g) /\ N.of_nat g < wlen s' /\ n2 <= n2'.
  Proof.
    intros s r a stale hist n1 n2 g Hss Hrs Hg Hc1 Hc2.
    pose proof (SS_len _ _ _ Hss) as (Ha & Hlen & Hpos). set (m := wlen s) in *.
    set (rest := (N.to_nat m - g - 1)%nat).
    (* 1. the blocks before the gap are buffered *)
    destruct (drain_buffer g hist r a 0 s (datas (a + N.of_nat g + 2) rest) None n1
                (mk_chan (repeat (ack_dgram a) stale) None n2) Hrs ltac:(lia) ltac:(lia)) as (r1 & hist1 & Hrun1 & Hrs1).
    replace (0 + N.of_nat g) with (N.of_nat g) in Hrs1 by lia.
    (* 2. the blocks after the gap are out of sequence *)
    destruct (drain_out_seq rest (a + N.of_nat g + 2) hist1 r1 (a + N.of_nat g) (N.of_nat g) s [] None n1
                (mk_chan (repeat (ack_dgram a) stale) None n2) Hrs1) as (r2 & hist2 & Hrun2 & Hrs2).
    { intros i Hi. unfold rest in Hi. destruct Hwf as (_ & _ & Hw). lia. }
    rewrite app_nil_r in Hrun2.
    set (extra := if N.of_nat g =? 0 then rest else O).
    assert (Hq : chan_puts f_rs (mk_chan (repeat (ack_dgram a) stale) None n2)
                   (if N.of_nat g =? 0 then repeat (ack_dgram (a + N.of_nat g)) rest else []) =
                 mk_chan (repeat (ack_dgram a) (stale + extra)) None (n2 + N.of_nat extra)).
    { unfold extra. destruct (N.eqb_spec (N.of_nat g) 0) as [Hz|Hnz].
      - rewrite chan_puts_clean by (intros i Hi; apply Hc2; lia).
        replace (a + N.of_nat g) with a by lia. rewrite repeat_app. unfold lenN. rewrite repeat_length. reflexivity.
      - change (chan_puts f_rs ?c []) with c. rewrite Nat.add_0_r, N.add_0_r. reflexivity. }
    rewrite Hq in Hrun2.
    (* 3. the sender reads the repeated ACKs *)
    destruct (drain_stale (stale + extra) s a 0 r2 None n1 [] None (n2 + N.of_nat extra) Hss) as (s3 & Hrun3 & Hss3 & Hl3).
    rewrite app_nil_r in Hrun3.
    (* 4. silence: the timer fires, the window goes out again *)
    destruct (send_retx s3 a 0 Hss3 one_retry) as (s4 & out & E4 & Hss4 & Hl4 & Hout4).
    exists (g + rest + (stale + extra) + 1)%nat, s4, r2, hist2, (n2 + N.of_nat extra).
    split; [|split; [exact Hss4|split; [exact Hrs2|split; [rewrite Hl4, Hl3; exact Hg|lia]]]].
    rewrite (run_add (g + rest + (stale + extra)) 1), (run_add (g + rest) (stale + extra)), (run_add g rest).
    rewrite Hrun1, Hrun2, Hrun3. cbn [pair_run]. rewrite step_tmo by apply Hss3. rewrite E4. cbn [fst snd].
    rewrite Hout4. unfold sync_state.
    rewrite chan_puts_clean by (intros i Hi; apply Hc1; unfold lenN in Hi; rewrite datas_length, N2Nat.id in Hi; rewrite Hl3 in Hi; fold m; lia).
    cbn [app repeat]. unfold lenN. rewrite datas_length, N2Nat.id, Hl4. reflexivity.
  Qed.

  (** Exactly one datagram of a direction is lost: the one with index [i]. *)
  Definition one_drop (fs : list (N * fault)) (i : N) : Prop :=
    fault_at fs i = NfDrop /\ forall k, k <> i -> fault_at fs k = NfDeliver.

  Lemma data_drop_from_emit : forall k s r a hist n1 n2 i, nb - a <= N.of_nat k ->
    SS s a 0 -> RS hist r a 0 -> one_drop f_sr i -> clean_from f_rs n2 -> n1 <= i ->
    exists fuel, Final (run fuel (emit_state s r a n1 n2 0)).
  Proof.
    intros k. induction k as [|k IH]; intros s r a hist n1 n2 i Hk Hss Hrs [Hd Hother] Hc2 Hi;
      pose proof (SS_len _ _ _ Hss) as (Ha & Hlen & Hpos); [lia|].
    destruct (N.lt_ge_cases i (n1 + wlen s)) as [Hin|Hout].
    - (* the loss hits this window *)
      set (g := N.to_nat (i - n1)).
      rewrite (emit_gap s r a n1 n2 O g) by
        (try (unfold g; lia); try (replace (n1 + N.of_nat g) with i by (unfold g; lia); exact Hd);
         intros j Hj; apply Hother; unfold g in Hj; lia).
      destruct (gap_recovery s r a O hist (n1 + wlen s) n2 g Hss Hrs ltac:(unfold g; lia)) as
        (fuel1 & s' & r' & hist' & n2' & Hrun1 & Hss' & Hrs' & Hg' & Hn2'); try assumption.
      { intros j Hj. apply Hother. lia. }
      destruct (perfect_from_sync (S k) s' r' a 1 (N.of_nat g) O hist' (n1 + wlen s + wlen s') n2' Hk Hss' Hrs' Hg')
        as (fuel2 & Hfin).
      { intros j Hj. apply Hother. lia. }
      { intros j Hj. apply Hc2. lia. }
      exists (fuel1 + fuel2)%nat. rewrite run_add, Hrun1. exact Hfin.
    - (* not yet: an undisturbed round *)
      rewrite emit_clean by (intros j Hj; apply Hother; lia).
      replace a with (a + 0) in Hrs by lia.
      destruct (round_gen s r a 0 0 O hist (n1 + wlen s) n2 Hss Hrs ltac:(lia) ltac:(apply Hc2; lia))
        as (fuel1 & p' & Hrun1 & Hres).
      destruct (N.eqb_spec (a + wlen s) nb) as [Hlast|Hnot].
      + exists fuel1. rewrite Hrun1. exact Hres.
      + destruct Hres as (s' & r' & hist' & -> & Hss' & Hrs').
        destruct (IH s' r' (a + wlen s) hist' (n1 + wlen s) (n2 + 1) i ltac:(lia) Hss' Hrs' (conj Hd Hother))
          as (fuel2 & Hfin); [intros j Hj; apply Hc2; lia|lia|].
        exists (fuel1 + fuel2)%nat. rewrite run_add, Hrun1. exact Hfin.
  Qed.

  (** ** Several lost DATA datagrams, no two of them close together *)

  (** The indices of the lost datagrams, in increasing order, any two more than [d] apart, none below [lo]. *)
  Fixpoint spaced (d lo : N) (is : list N) : Prop :=
    match is with
    | [] => True
    | i :: r => lo <= i /\ spaced d (i + d + 1) r
    end.

  Lemma spaced_weaken : forall d is lo lo', lo' <= lo -> spaced d lo is -> spaced d lo' is.
  Proof. intros d is. destruct is as [|i r]; intros lo lo' H Hs; cbn [spaced] in *; [exact I|]. destruct Hs. split; [lia|assumption]. Qed.

  Lemma spaced_ge : forall d is lo k, spaced d lo is -> In k is -> lo <= k.
  Proof.
    intros d is. induction is as [|i r IH]; intros lo k Hs Hin; [contradiction|]. cbn [spaced] in Hs. destruct Hs as [Hlo Hr].
    destruct Hin as [->|Hin]; [exact Hlo|]. specialize (IH _ _ Hr Hin). lia.
  Qed.

  (** From index [lo] on, exactly the datagrams with an index in [is] are lost. *)
  Definition drops_from (fs : list (N * fault)) (lo : N) (is : list N) : Prop :=
    forall k, lo <= k -> (In k is -> fault_at fs k = NfDrop) /\ (~ In k is -> fault_at fs k = NfDeliver).

  Lemma data_drops_from_emit : forall k is s r a hist n1 n2, nb - a <= N.of_nat k ->
    SS s a 0 -> RS hist r a 0 -> drops_from f_sr n1 is -> spaced (2 * ws) n1 is -> clean_from f_rs n2 ->
    exists fuel, Final (run fuel (emit_state s r a n1 n2 0)).
  Proof.
    intros k. induction k as [|k IH]; intros is s r a hist n1 n2 Hk Hss Hrs Hd Hsp Hc2;
      pose proof (SS_len _ _ _ Hss) as (Ha & Hlen & Hpos); [lia|].
    assert (Hrs0 : RS hist r (a + 0) 0) by (replace (a + 0) with a by lia; exact Hrs).
    pose proof Hwf as (_ & _ & Hw).
    (* is the next loss inside this window? *)
    assert (Hcase : (exists i rest, is = i :: rest /\ i < n1 + wlen s) \/ (forall j, In j is -> n1 + wlen s <= j)).
    { destruct is as [|i rest]; [right; intros j []|]. destruct (N.lt_ge_cases i (n1 + wlen s)) as [Hin|Hout].
      - left. exists i, rest. split; [reflexivity|exact Hin].
      - right. intros j Hj. cbn [spaced] in Hsp. destruct Hsp as [_ Hr]. destruct Hj as [<-|Hj]; [exact Hout|].
        pose proof (spaced_ge _ _ _ _ Hr Hj). lia. }
    destruct Hcase as [(i & rest & -> & Hin)|Hfar].
    - cbn [spaced] in Hsp. destruct Hsp as [Hlo Hrest]. set (g := N.to_nat (i - n1)).
      assert (Hnot : forall j, n1 <= j -> j <> i -> j < i + 2 * ws + 1 -> fault_at f_sr j = NfDeliver).
      { intros j Hge Hne Hj. apply (proj2 (Hd j Hge)). intros [E|Hjr]; [congruence|]. pose proof (spaced_ge _ _ _ _ Hrest Hjr). lia. }
      rewrite (emit_gap s r a n1 n2 O g) by
        (try (unfold g; lia); try (replace (n1 + N.of_nat g) with i by (unfold g; lia); apply (proj1 (Hd i Hlo)); left; reflexivity);
         intros j Hj; apply Hnot; unfold g in Hj; lia).
      destruct (gap_recovery s r a O hist (n1 + wlen s) n2 g Hss Hrs ltac:(unfold g; lia)) as
        (fuel1 & s' & r' & hist' & n2' & Hrun1 & Hss' & Hrs' & Hg' & Hn2'); try assumption.
      { intros j Hj. apply Hnot; lia. }
      pose proof (SS_len _ _ _ Hss') as (_ & Hlen' & _).
      (* the window goes through on the second attempt; the later losses are still ahead *)
      destruct (round_gen s' r' a 1 (N.of_nat g) O hist' (n1 + wlen s + wlen s') n2' Hss' Hrs' Hg' ltac:(apply Hc2; lia))
        as (fuel2 & p' & Hrun2 & Hres).
      destruct (N.eqb_spec (a + wlen s') nb) as [Hlast|Hnot2].
      + exists (fuel1 + fuel2)%nat. rewrite run_add, Hrun1, Hrun2. exact Hres.
      + destruct Hres as (s2 & r2 & hist2 & -> & Hss2 & Hrs2).
        destruct (IH rest s2 r2 (a + wlen s') hist2 (n1 + wlen s + wlen s') (n2' + 1) ltac:(lia) Hss2 Hrs2) as (fuel3 & Hfin).
        * intros j Hge. assert (Hji : j <> i) by lia. destruct (Hd j ltac:(lia)) as [D1 D2]. split.
          -- intros Hj. apply D1. right. exact Hj.
          -- intros Hj. apply D2. intros [E|Hjr]; [congruence|contradiction].
        * eapply spaced_weaken; [|exact Hrest]. lia.
        * intros j Hj. apply Hc2. lia.
        * exists (fuel1 + (fuel2 + fuel3))%nat. rewrite run_add, Hrun1, run_add, Hrun2. exact Hfin.
    - rewrite emit_clean by (intros j Hj; apply (proj2 (Hd j ltac:(lia))); intros Hjn; specialize (Hfar _ Hjn); lia).
      destruct (round_gen s r a 0 0 O hist (n1 + wlen s) n2 Hss Hrs0 ltac:(lia) ltac:(apply Hc2; lia))
        as (fuel1 & p' & Hrun1 & Hres).
      destruct (N.eqb_spec (a + wlen s) nb) as [Hlast|Hnot].
      + exists fuel1. rewrite Hrun1. exact Hres.
      + destruct Hres as (s' & r' & hist' & -> & Hss' & Hrs').
        destruct (IH is s' r' (a + wlen s) hist' (n1 + wlen s) (n2 + 1) ltac:(lia) Hss' Hrs') as (fuel2 & Hfin).
        * intros j Hge. apply Hd. lia.
        * destruct is as [|i rest]; [exact I|]. cbn [spaced] in *. destruct Hsp as [_ Hr]. split; [apply Hfar; left; reflexivity|exact Hr].
        * intros j Hj. apply Hc2. lia.
        * exists (fuel1 + fuel2)%nat. rewrite run_add, Hrun1. exact Hfin.
  Qed.

  (** ** One lost ACK *)

  Definition FinalR (p : pair_state) : Prop :=
    r_phase (p_r p) = RDone OutOk /\ written_bytes (w_file (r_w (p_r p))) = F.

  Lemma ack_drop_from_emit : forall k s r a hist n1 n2 i, nb - a <= N.of_nat k ->
    SS s a 0 -> RS hist r a 0 -> one_drop f_rs i -> clean_from f_sr n1 -> n2 <= i ->
    exists fuel, FinalR (run fuel (emit_state s r a n1 n2 0)) /\
      (s_phase (p_s (run fuel (emit_state s r a n1 n2 0))) = SDone OutOk \/
       ch_n (p_rs (run fuel (emit_state s r a n1 n2 0))) = i + 1).
  Proof.
    intros k. induction k as [|k IH]; intros s r a hist n1 n2 i Hk Hss Hrs [Hd Hother] Hc1 Hi;
      pose proof (SS_len _ _ _ Hss) as (Ha & Hlen & Hpos); [lia|].
    rewrite emit_clean by (intros j Hj; apply Hc1; lia).
    assert (Hrs0 : RS hist r (a + 0) 0) by (replace (a + 0) with a by lia; exact Hrs).
    unfold sync_state. set (m := wlen s) in *.
    destruct (N.eq_dec i n2) as [->|Hne].
    - (* this round's ACK is the one that is lost *)
      destruct (half_a s r a 0 0 O hist (n1 + m) n2 [] None Hss Hrs0 ltac:(lia)) as (s1 & r1 & Hrun1 & Hss1 & Hl1 & Hfin1).
      { cbn [repeat app]. apply chan_puts_drop. exact Hd. }
      fold m in Hrun1, Hfin1, Hl1. cbn [repeat] in Hrun1 |- *.
      destruct (N.eqb_spec (a + m) nb) as [Hlast|Hnot].
      + (* it was the last ACK of the transfer: the receiver is done, holding the file *)
        exists (N.to_nat m + 0)%nat. rewrite Hrun1. cbn [p_r p_s p_rs ch_n]. split; [exact Hfin1|right; reflexivity].
      + destruct Hfin1 as [hist1 Hrs1].
        (* silence; the timer fires; the window goes out again *)
        destruct (send_retx s1 a 0 Hss1 one_retry) as (s2 & out & E2 & Hss2 & Hl2 & Hout2).
        (* the receiver, holding everything already, acknowledges every block again *)
        replace (a + m) with (a + m + 0) in Hrs1 by lia.
        destruct (drain_out_seq (N.to_nat m) (a + 1) hist1 r1 (a + m + 0) 0 s2 [] None (n1 + m + m)
                    (mk_chan [] None (n2 + 1)) ltac:(replace (a + m + 0) with (a + m) in * by lia; exact Hrs1))
          as (r2 & hist2 & Hrun3 & Hrs2).
        { intros j Hj. destruct Hwf as (_ & _ & Hw). lia. }
        rewrite app_nil_r in Hrun3. change (0 =? 0) with true in Hrun3. cbv iota in Hrun3.
        rewrite chan_puts_clean in Hrun3 by (intros j Hj; apply Hother; lia).
        cbn [app] in Hrun3. unfold lenN in Hrun3. rewrite repeat_length, N2Nat.id in Hrun3.
        replace (a + m + 0) with (a + m) in * by lia.
        (* the sender takes the first of them and sends the next window *)
        assert (Hrep : repeat (ack_dgram (a + m)) (N.to_nat m) = ack_dgram (a + m) :: repeat (ack_dgram (a + m)) (N.to_nat m - 1)).
        { replace (N.to_nat m) with (S (N.to_nat m - 1)) at 1 by lia. reflexivity. }
        rewrite Hrep in Hrun3.
        assert (Hm2 : wlen s2 = m) by (rewrite Hl2; exact Hl1).
        destruct (send_ack_window s2 a (0 + 1) Hss2) as (s3 & out3 & E3 & Hres3). rewrite Hm2 in E3, Hres3.
        destruct (N.eqb_spec (a + m) nb) as [|_]; [contradiction|]. destruct Hres3 as [Hss3 Hout3].
        pose proof (SS_len _ _ _ Hss3) as (_ & _ & Hpos3).
        destruct (perfect_from_sync k s3 r2 (a + m) 0 0 (N.to_nat m - 1) hist2 (n1 + m + m + wlen s3) (n2 + 1 + m)
                    ltac:(lia) Hss3 ltac:(replace (a + m + 0) with (a + m) by lia; exact Hrs2) ltac:(lia))
          as (fuel4 & Hfin4).
        { intros j Hj. apply Hc1. lia. }
        { intros j Hj. apply Hother. lia. }
        exists (N.to_nat m + 0 + 1 + N.to_nat m + 1 + fuel4)%nat.
        assert (Hrun : run (N.to_nat m + 0 + 1 + N.to_nat m + 1)
                         (mk_pair s r (mk_chan (datas (a + 1) (N.to_nat m)) None (n1 + m)) (mk_chan [] None n2)) =
                       sync_state s3 r2 (a + m) (n1 + m + m + wlen s3) (n2 + 1 + m) (N.to_nat m - 1)).
        { rewrite (run_add (N.to_nat m + 0 + 1 + N.to_nat m) 1), (run_add (N.to_nat m + 0 + 1) (N.to_nat m)),
                  (run_add (N.to_nat m + 0) 1), Hrun1.
          cbn [pair_run]. rewrite step_tmo by apply Hss1. rewrite E2. cbn [fst snd]. rewrite Hout2, Hl1.
          rewrite chan_puts_clean by (intros j Hj; apply Hc1; lia). cbn [app]. unfold lenN. rewrite datas_length, N2Nat.id.
          rewrite Hrun3. rewrite step_send by apply Hss2. rewrite E3. cbn [fst snd]. rewrite Hout3.
          rewrite chan_puts_clean by (intros j Hj; apply Hc1; lia). cbn [app]. unfold lenN. rewrite datas_length, N2Nat.id.
          reflexivity. }
        rewrite (run_add (N.to_nat m + 0 + 1 + N.to_nat m + 1) fuel4), Hrun.
        destruct Hfin4 as (Hf1 & Hf2 & Hf3). split; [split; assumption|left; exact Hf3].
    - (* the lost ACK is a later one: an undisturbed round *)
      destruct (round_gen s r a 0 0 O hist (n1 + m) n2 Hss Hrs0 ltac:(lia) ltac:(apply Hother; lia))
        as (fuel1 & p' & Hrun1 & Hres). fold m in Hres. unfold sync_state in Hrun1. fold m in Hrun1.
      destruct (N.eqb_spec (a + m) nb) as [Hlast|Hnot].
      + exists fuel1. rewrite Hrun1. destruct Hres as (Hf1 & Hf2 & Hf3). split; [split; assumption|left; exact Hf3].
      + destruct Hres as (s' & r' & hist' & -> & Hss' & Hrs').
        destruct (IH s' r' (a + m) hist' (n1 + m) (n2 + 1) i ltac:(lia) Hss' Hrs' (conj Hd Hother))
          as (fuel2 & Hfin); [intros j Hj; apply Hc1; lia|lia|].
        exists (fuel1 + fuel2)%nat. rewrite run_add, Hrun1. exact Hfin.
  Qed.

  (** ** Several lost ACKs, no two of them close together *)

  Lemma ack_drops_from_sync : forall k is s r a hist n1 n2 stale, nb - a <= N.of_nat k ->
    SS s a 0 -> RS hist r a 0 -> drops_from f_rs n2 is -> spaced ws n2 is -> clean_from f_sr n1 ->
    exists fuel, FinalR (run fuel (sync_state s r a n1 n2 stale)) /\
      (s_phase (p_s (run fuel (sync_state s r a n1 n2 stale))) = SDone OutOk \/
       In (ch_n (p_rs (run fuel (sync_state s r a n1 n2 stale))) - 1) is).
  Proof.
    intros k. induction k as [|k IH]; intros is s r a hist n1 n2 stale Hk Hss Hrs Hd Hsp Hc1;
      pose proof (SS_len _ _ _ Hss) as (Ha & Hlen & Hpos); [lia|].
    assert (Hrs0 : RS hist r (a + 0) 0) by (replace (a + 0) with a by lia; exact Hrs).
    unfold sync_state. set (m := wlen s) in *. pose proof Hwf as (_ & _ & Hw).
    assert (Hcase : (exists rest, is = n2 :: rest) \/ ~ In n2 is).
    { destruct is as [|i rest]; [right; intros []|]. cbn [spaced] in Hsp. destruct Hsp as [Hlo Hr].
      destruct (N.eq_dec i n2) as [->|Hne]; [left; exists rest; reflexivity|].
      right. intros [E|Hin]; [congruence|]. pose proof (spaced_ge _ _ _ _ Hr Hin). lia. }
    destruct Hcase as [(rest & ->)|Hnotin].
    - (* this round's ACK is lost *)
      cbn [spaced] in Hsp. destruct Hsp as [_ Hrest].
      assert (Hdrop : fault_at f_rs n2 = NfDrop) by (apply (proj1 (Hd n2 ltac:(lia))); left; reflexivity).
      assert (Hnext : forall j, n2 < j -> j < n2 + ws + 1 -> fault_at f_rs j = NfDeliver).
      { intros j H1 H2. apply (proj2 (Hd j ltac:(lia))). intros [E|Hin]; [lia|]. pose proof (spaced_ge _ _ _ _ Hrest Hin). lia. }
      destruct (half_a s r a 0 0 stale hist n1 n2 [] None Hss Hrs0 ltac:(lia)) as (s1 & r1 & Hrun1 & Hss1 & Hl1 & Hfin1).
      { rewrite app_nil_r. apply chan_puts_drop. exact Hdrop. }
      fold m in Hrun1, Hfin1, Hl1.
      destruct (N.eqb_spec (a + m) nb) as [Hlast|Hnot].
      + exists (N.to_nat m + stale)%nat. rewrite Hrun1. cbn [p_r p_s p_rs ch_n]. split; [exact Hfin1|right].
        replace (n2 + 1 - 1) with n2 by lia. left. reflexivity.
      + destruct Hfin1 as [hist1 Hrs1].
        destruct (send_retx s1 a 0 Hss1 one_retry) as (s2 & out & E2 & Hss2 & Hl2 & Hout2).
        replace (a + m) with (a + m + 0) in Hrs1 by lia.
        destruct (drain_out_seq (N.to_nat m) (a + 1) hist1 r1 (a + m + 0) 0 s2 [] None (n1 + m)
                    (mk_chan [] None (n2 + 1)) ltac:(replace (a + m + 0) with (a + m) in * by lia; exact Hrs1))
          as (r2 & hist2 & Hrun3 & Hrs2).
        { intros j Hj. lia. }
        rewrite app_nil_r in Hrun3. change (0 =? 0) with true in Hrun3. cbv iota in Hrun3.
        rewrite chan_puts_clean in Hrun3 by (intros j Hj; unfold lenN in Hj; rewrite repeat_length, N2Nat.id in Hj; apply Hnext; lia).
        cbn [app] in Hrun3. unfold lenN in Hrun3. rewrite repeat_length, N2Nat.id in Hrun3.
        replace (a + m + 0) with (a + m) in * by lia.
        assert (Hrep : repeat (ack_dgram (a + m)) (N.to_nat m) = ack_dgram (a + m) :: repeat (ack_dgram (a + m)) (N.to_nat m - 1)).
        { replace (N.to_nat m) with (S (N.to_nat m - 1)) at 1 by lia. reflexivity. }
        rewrite Hrep in Hrun3.
        assert (Hm2 : wlen s2 = m) by (rewrite Hl2; exact Hl1).
        destruct (send_ack_window s2 a (0 + 1) Hss2) as (s3 & out3 & E3 & Hres3). rewrite Hm2 in E3, Hres3.
        destruct (N.eqb_spec (a + m) nb) as [|_]; [contradiction|]. destruct Hres3 as [Hss3 Hout3].
        pose proof (SS_len _ _ _ Hss3) as (_ & _ & Hpos3).
        destruct (IH rest s3 r2 (a + m) hist2 (n1 + m + wlen s3) (n2 + 1 + m) (N.to_nat m - 1)%nat ltac:(lia) Hss3 Hrs2)
          as (fuel4 & Hfin4 & Hor4).
        * intros j Hge. destruct (Hd j ltac:(lia)) as [D1 D2]. split.
          -- intros Hj. apply D1. right. exact Hj.
          -- intros Hj. apply D2. intros [E|Hjr]; [lia|contradiction].
        * eapply spaced_weaken; [|exact Hrest]. lia.
        * intros j Hj. apply Hc1. lia.
        * assert (Hrun : run (N.to_nat m + stale + 1 + N.to_nat m + 1)
                         (mk_pair s r (mk_chan (datas (a + 1) (N.to_nat m)) None n1) (mk_chan (repeat (ack_dgram a) stale) None n2)) =
                       sync_state s3 r2 (a + m) (n1 + m + wlen s3) (n2 + 1 + m) (N.to_nat m - 1)).
          { rewrite (run_add (N.to_nat m + stale + 1 + N.to_nat m) 1), (run_add (N.to_nat m + stale + 1) (N.to_nat m)),
                    (run_add (N.to_nat m + stale) 1), Hrun1.
            cbn [pair_run]. rewrite step_tmo by apply Hss1. rewrite E2. cbn [fst snd]. rewrite Hout2, Hl1.
            rewrite chan_puts_clean by (intros j Hj; apply Hc1; lia). cbn [app]. unfold lenN. rewrite datas_length, N2Nat.id.
            rewrite Hrun3. rewrite step_send by apply Hss2. rewrite E3. cbn [fst snd]. rewrite Hout3.
            rewrite chan_puts_clean by (intros j Hj; apply Hc1; lia). cbn [app]. unfold lenN. rewrite datas_length, N2Nat.id.
            reflexivity. }
          exists (N.to_nat m + stale + 1 + N.to_nat m + 1 + fuel4)%nat.
          rewrite (run_add (N.to_nat m + stale + 1 + N.to_nat m + 1) fuel4), Hrun. split; [exact Hfin4|].
          destruct Hor4 as [Hok|Hin]; [left; exact Hok|right; right; exact Hin].
    - (* this round's ACK arrives *)
      assert (Hdel : fault_at f_rs n2 = NfDeliver) by (apply (proj2 (Hd n2 ltac:(lia))); exact Hnotin).
      destruct (round_gen s r a 0 0 stale hist n1 n2 Hss Hrs0 ltac:(lia) Hdel) as (fuel1 & p' & Hrun1 & Hres).
      fold m in Hres. unfold sync_state in Hrun1. fold m in Hrun1.
      destruct (N.eqb_spec (a + m) nb) as [Hlast|Hnot].
      + exists fuel1. rewrite Hrun1. destruct Hres as (Hf1 & Hf2 & Hf3). split; [split; assumption|left; exact Hf3].
      + destruct Hres as (s' & r' & hist' & Hp' & Hss' & Hrs').
        pose proof (SS_len _ _ _ Hss') as (_ & _ & Hpos').
        rewrite Hp', emit_clean in Hrun1 by (intros j Hj; apply Hc1; lia).
        destruct (IH is s' r' (a + m) hist' (n1 + wlen s') (n2 + 1) O ltac:(lia) Hss' Hrs') as (fuel2 & Hfin).
        * intros j Hge. apply Hd. lia.
        * destruct is as [|i rest]; [exact I|]. cbn [spaced] in *. destruct Hsp as [Hlo Hr]. split; [|exact Hr].
          destruct (N.eq_dec i n2) as [->|]; [exfalso; apply Hnotin; left; reflexivity|lia].
        * intros j Hj. apply Hc1. lia.
        * exists (fuel1 + fuel2)%nat. rewrite run_add, Hrun1. exact Hfin.
  Qed.

  (** ** One duplicated datagram *)

  Definition one_dup (fs : list (N * fault)) (i : N) : Prop :=
    fault_at fs i = NfDup /\ forall k, k <> i -> fault_at fs k = NfDeliver.

  Lemma chan_puts_dup : forall fs d q n, fault_at fs n = NfDup ->
    chan_puts fs (mk_chan q None n) [d] = mk_chan (q ++ [d; d]) None (n + 1).
  Proof. intros fs d q n H. unfold chan_puts. cbn [fold_left]. unfold chan_put. cbn [ch_n ch_held ch_q]. rewrite H. reflexivity. Qed.

  (** Second half of a round: the sender discards [stale] repeated ACKs of block [a], accepts the
      ACK of the window and sends the next one; [x] further copies of that ACK stay queued. *)
  Lemma half_b : forall s r1 a r0 stale x n1 n2, SS s a r0 ->
    (if a + wlen s =? nb then r_phase r1 = RDone OutOk /\ written_bytes (w_file (r_w r1)) = F
     else exists hist', RS hist' r1 (a + wlen s) 0) ->
    exists p', run (stale + 1)
                 (mk_pair s r1 (mk_chan [] None n1)
                          (mk_chan (repeat (ack_dgram a) stale ++ ack_dgram (a + wlen s) :: repeat (ack_dgram (a + wlen s)) x) None n2)) = p' /\
      if a + wlen s =? nb then Final p'
      else exists s' hist', p' = emit_state s' r1 (a + wlen s) n1 n2 x /\ SS s' (a + wlen s) 0 /\ RS hist' r1 (a + wlen s) 0.
  Proof.
    intros s r1 a r0 stale x n1 n2 Hss Hfin1.
    destruct (drain_stale stale s a r0 r1 None n1 (ack_dgram (a + wlen s) :: repeat (ack_dgram (a + wlen s)) x) None n2 Hss)
      as (s1 & Hrun1 & Hss1 & Hl1).
    eexists. split; [reflexivity|]. rewrite run_add, Hrun1. cbn [pair_run]. rewrite step_send by apply Hss1.
    rewrite <- Hl1. destruct (send_ack_window s1 a r0 Hss1) as (s2 & out & E & Hres). rewrite E. cbn [fst snd].
    rewrite Hl1 in *. destruct (N.eqb_spec (a + wlen s) nb) as [Hlast|Hnot].
    - destruct Hres as [-> Hd]. cbn [sent_bytes map filter].
      change (chan_puts f_sr (mk_chan [] None n1) []) with (mk_chan [] None n1).
      unfold Final. cbn [p_r p_s]. destruct Hfin1 as [Hp Hfile]. repeat split; assumption.
    - destruct Hres as [Hss2 Hout]. destruct Hfin1 as [hist' Hrs']. rewrite Hout.
      exists s2, hist'. split; [reflexivity|split; assumption].
  Qed.

  (** A round whose ACK is duplicated by the network. *)
  Lemma round_ack_dup : forall s r a r0 j0 stale hist n1 n2, SS s a r0 -> RS hist r (a + j0) j0 -> j0 < wlen s ->
    fault_at f_rs n2 = NfDup ->
    exists fuel p', run fuel (sync_state s r a n1 n2 stale) = p' /\
      if a + wlen s =? nb then Final p'
      else exists s' r' hist', p' = emit_state s' r' (a + wlen s) n1 (n2 + 1) 1 /\
             SS s' (a + wlen s) 0 /\ RS hist' r' (a + wlen s) 0.
  Proof.
    intros s r a r0 j0 stale hist n1 n2 Hss Hrs Hj Hf2. unfold sync_state.
    destruct (half_a s r a r0 j0 stale hist n1 n2 [ack_dgram (a + wlen s); ack_dgram (a + wlen s)] None Hss Hrs Hj)
      as (s1 & r1 & Hrun1 & Hss1 & Hl1 & Hfin1).
    { apply chan_puts_dup. exact Hf2. }
    rewrite <- Hl1 in Hfin1, Hrun1.
    assert (Hrun1' : run (N.to_nat (wlen s) + stale)
              (mk_pair s r (mk_chan (datas (a + 1) (N.to_nat (wlen s))) None n1) (mk_chan (repeat (ack_dgram a) stale) None n2)) =
            mk_pair s1 r1 (mk_chan [] None n1)
              (mk_chan (repeat (ack_dgram a) 0 ++ ack_dgram (a + wlen s1) :: repeat (ack_dgram (a + wlen s1)) 1) None (n2 + 1)))
      by (rewrite Hl1 in *; exact Hrun1).
    destruct (half_b s1 r1 a r0 O 1 n1 (n2 + 1) Hss1 Hfin1) as (p' & Hrun2 & Hres).
    exists (N.to_nat (wlen s) + stale + (0 + 1))%nat, p'. split; [rewrite run_add, Hrun1'; exact Hrun2|].
    rewrite Hl1 in Hres. destruct (a + wlen s =? nb); [exact Hres|].
    destruct Hres as (s' & hist' & Hp' & Hss' & Hrs'). exists s', r1, hist'. split; [exact Hp'|split; assumption].
  Qed.

  Lemma ack_dup_from_emit : forall k s r a hist n1 n2 i, nb - a <= N.of_nat k ->
    SS s a 0 -> RS hist r a 0 -> one_dup f_rs i -> clean_from f_sr n1 -> n2 <= i ->
    exists fuel, Final (run fuel (emit_state s r a n1 n2 0)).
  Proof.
    intros k. induction k as [|k IH]; intros s r a hist n1 n2 i Hk Hss Hrs [Hd Hother] Hc1 Hi;
      pose proof (SS_len _ _ _ Hss) as (Ha & Hlen & Hpos); [lia|].
    rewrite emit_clean by (intros j Hj; apply Hc1; lia).
    assert (Hrs0 : RS hist r (a + 0) 0) by (replace (a + 0) with a by lia; exact Hrs).
    destruct (N.eq_dec i n2) as [->|Hne].
    - destruct (round_ack_dup s r a 0 0 O hist (n1 + wlen s) n2 Hss Hrs0 ltac:(lia) Hd) as (fuel1 & p' & Hrun1 & Hres).
      destruct (N.eqb_spec (a + wlen s) nb) as [Hlast|Hnot].
      + exists fuel1. rewrite Hrun1. exact Hres.
      + destruct Hres as (s' & r' & hist' & -> & Hss' & Hrs').
        pose proof (SS_len _ _ _ Hss') as (_ & _ & Hpos').
        rewrite emit_clean in Hrun1 by (intros j Hj; apply Hc1; lia).
        destruct (perfect_from_sync k s' r' (a + wlen s) 0 0 1 hist' (n1 + wlen s + wlen s') (n2 + 1)
                    ltac:(lia) Hss' ltac:(replace (a + wlen s + 0) with (a + wlen s) by lia; exact Hrs') ltac:(lia))
          as (fuel2 & Hfin).
        { intros j Hj. apply Hc1. lia. }
        { intros j Hj. apply Hother. lia. }
        exists (fuel1 + fuel2)%nat. rewrite run_add, Hrun1. exact Hfin.
    - destruct (round_gen s r a 0 0 O hist (n1 + wlen s) n2 Hss Hrs0 ltac:(lia) ltac:(apply Hother; lia))
        as (fuel1 & p' & Hrun1 & Hres).
      destruct (N.eqb_spec (a + wlen s) nb) as [Hlast|Hnot].
      + exists fuel1. rewrite Hrun1. exact Hres.
      + destruct Hres as (s' & r' & hist' & -> & Hss' & Hrs').
        destruct (IH s' r' (a + wlen s) hist' (n1 + wlen s) (n2 + 1) i ltac:(lia) Hss' Hrs' (conj Hd Hother))
          as (fuel2 & Hfin); [intros j Hj; apply Hc1; lia|lia|].
        exists (fuel1 + fuel2)%nat. rewrite run_add, Hrun1. exact Hfin.
  Qed.

  (** *** A duplicated DATA datagram *)

  Lemma emit_dup : forall s r a n1 n2 stale g, N.of_nat g < wlen s ->
    clean f_sr n1 (n1 + N.of_nat g) -> fault_at f_sr (n1 + N.of_nat g) = NfDup ->
    clean f_sr (n1 + N.of_nat g + 1) (n1 + wlen s) ->
    emit_state s r a n1 n2 stale =
      mk_pair s r (mk_chan (datas (a + 1) g ++ data_dgram blk F (a + 1 + N.of_nat g) :: data_dgram blk F (a + 1 + N.of_nat g) ::
                            datas (a + N.of_nat g + 2) (N.to_nat (wlen s) - g - 1)) None (n1 + wlen s))
              (mk_chan (repeat (ack_dgram a) stale) None n2).
  Proof.
    intros s r a n1 n2 stale g Hg Hc1 Hd Hc2. unfold emit_state. f_equal.
    replace (N.to_nat (wlen s)) with (g + (1 + (N.to_nat (wlen s) - g - 1)))%nat at 1 by lia.
    rewrite !datas_app, !chan_puts_app. rewrite chan_puts_clean by (unfold lenN; rewrite datas_length; exact Hc1).
    unfold lenN at 1. rewrite datas_length. cbn [datas app]. rewrite chan_puts_dup by exact Hd.
    rewrite chan_puts_clean.
    - unfold lenN. rewrite datas_length. rewrite <- !app_assoc. cbn [app]. f_equal; [|lia].
      f_equal. f_equal. f_equal. f_equal. lia.
    - unfold lenN. rewrite datas_length. intros i Hi. apply Hc2. lia.
  Qed.

  Lemma step_send_done : forall s r o sr d q h' n', r_phase r = RDone o -> s_phase s = SInWindow ->
    step (mk_pair s r sr (mk_chan (d :: q) h' n')) =
      Some (mk_pair (fst (send_step sc s (EvDgram 0 d))) r
                    (chan_puts f_sr sr (sent_bytes (snd (send_step sc s (EvDgram 0 d)))))
                    (mk_chan q h' n')).
  Proof.
    intros s r o sr d q h' n' Hr Hp. unfold pair_step. cbn [p_sr p_r p_s p_rs ch_q ch_held ch_n].
    unfold r_running, s_running. rewrite Hr, Hp.
    destruct (send_step sc s (EvDgram 0 d)) as [s' out]. destruct (ch_q sr); reflexivity.
  Qed.

  Lemma drain_stale_done : forall n s a r0 rr o sr q h' n', r_phase rr = RDone o -> SS s a r0 ->
    exists s', run n (mk_pair s rr sr (mk_chan (repeat (ack_dgram a) n ++ q) h' n')) =
                 mk_pair s' rr sr (mk_chan q h' n') /\ SS s' a r0 /\ wlen s' = wlen s.
  Proof.
    intros n. induction n as [|n IH]; intros s a r0 rr o sr q h' n' Hr Hss.
    - cbn [repeat app pair_run]. exists s. split; [reflexivity|]. split; [exact Hss|reflexivity].
    - cbn [repeat app pair_run]. rewrite (step_send_done s rr o) by (try exact Hr; apply Hss).
      destruct (send_stale s a r0 Hss) as (s1 & E & Hss1 & Hl1). rewrite E. cbn [fst snd sent_bytes map filter].
      change (chan_puts f_sr sr []) with sr.
      destruct (IH s1 a r0 rr o sr q h' n' Hr Hss1) as (s' & Hrun & Hss' & Hl').
      exists s'. split; [exact Hrun|]. split; [exact Hss'|]. rewrite Hl'. exact Hl1.
  Qed.

  (** The receiver is done; whatever is still queued for it no longer matters: the sender reads its ACK and ends. *)
  Lemma finish_with_leftover : forall s r1 a r0 stale sr n2, SS s a r0 -> a + wlen s = nb ->
    r_phase r1 = RDone OutOk -> written_bytes (w_file (r_w r1)) = F ->
    Final (run (stale + 1) (mk_pair s r1 sr (mk_chan (repeat (ack_dgram a) stale ++ [ack_dgram (a + wlen s)]) None n2))).
  Proof.
    intros s r1 a r0 stale sr n2 Hss Hlast Hr Hfile.
    destruct (drain_stale_done stale s a r0 r1 OutOk sr [ack_dgram (a + wlen s)] None n2 Hr Hss) as (s1 & Hrun1 & Hss1 & Hl1).
    rewrite run_add, Hrun1. cbn [pair_run]. rewrite (step_send_done s1 r1 OutOk) by (try exact Hr; apply Hss1).
    rewrite <- Hl1. destruct (send_ack_window s1 a r0 Hss1) as (s2 & out & E & Hres). rewrite E. cbn [fst snd].
    rewrite Hl1 in Hres. destruct (N.eqb_spec (a + wlen s) nb) as [_|]; [|contradiction].
    destruct Hres as [-> Hd]. unfold Final. cbn [p_r p_s]. repeat split; assumption.
  Qed.

  (** A round whose window reaches the receiver with its [g]-th datagram (from 0) doubled. *)
  Lemma dup_round : forall s r a r0 stale hist n1 n2 g, SS s a r0 -> RS hist r a 0 -> N.of_nat g < wlen s ->
    fault_at f_rs n2 = NfDeliver -> fault_at f_rs (n2 + 1) = NfDeliver ->
    exists fuel p',
      run fuel (mk_pair s r (mk_chan (datas (a + 1) g ++ data_dgram blk F (a + 1 + N.of_nat g) :: data_dgram blk F (a + 1 + N.of_nat g) ::
                                      datas (a + N.of_nat g + 2) (N.to_nat (wlen s) - g - 1)) None n1)
                        (mk_chan (repeat (ack_dgram a) stale) None n2)) = p' /\
      if a + wlen s =? nb then Final p'
      else exists s' r' hist' x n2', p' = emit_state s' r' (a + wlen s) n1 n2' x /\
             SS s' (a + wlen s) 0 /\ RS hist' r' (a + wlen s) 0 /\ n2 < n2'.
  Proof.
    intros s r a r0 stale hist n1 n2 g Hss Hrs Hg Hf2 Hf3.
    pose proof (SS_len _ _ _ Hss) as (Ha & Hlen & Hpos). set (m := wlen s) in *.
    set (rest := (N.to_nat m - g - 1)%nat). set (d := data_dgram blk F (a + 1 + N.of_nat g)).
    assert (Hmws : m <= ws) by lia. pose proof Hwf as (_ & _ & Hw).
    assert (Hclean1 : forall q, chan_puts f_rs (mk_chan q None n2) [ack_dgram (a + m)] = mk_chan (q ++ [ack_dgram (a + m)]) None (n2 + 1)).
    { intros q. rewrite chan_puts_clean; [reflexivity|]. intros i Hi. rewrite lenN_cons, lenN_nil in Hi. replace i with n2 by lia. exact Hf2. }
    destruct (Nat.eq_dec rest 0) as [Hlastblk|Hmid].
    - (* the doubled datagram is the last of the window *)
      replace (datas (a + N.of_nat g + 2) rest) with (@nil bytes) by (rewrite Hlastblk; reflexivity).
      replace (datas (a + 1) g ++ [d; d]) with (datas (a + 1) (N.to_nat m) ++ [d]).
      2: { replace (N.to_nat m) with (g + 1)%nat by (unfold rest in Hlastblk; lia). rewrite datas_app. cbn [datas app].
           rewrite <- app_assoc. cbn [app]. reflexivity. }
      destruct (drain_in_seq (N.to_nat m) hist r a 0 s [d] None n1 (mk_chan (repeat (ack_dgram a) stale) None n2) Hrs)
        as (r1 & Hrun1 & Hfin1); try lia.
      replace (a + N.of_nat (N.to_nat m)) with (a + m) in * by lia. rewrite Hclean1 in Hrun1.
      destruct (N.eqb_spec (a + m) nb) as [Hlast|Hnot].
      + (* the file is complete: the second copy is never read *)
        exists (N.to_nat m + (stale + 1))%nat. eexists. split; [reflexivity|]. rewrite run_add, Hrun1.
        destruct Hfin1 as [Hp Hfile]. apply (finish_with_leftover s r1 a r0 stale _ _ Hss Hlast Hp Hfile).
      + destruct Hfin1 as [hist1 Hrs1].
        (* the second copy finds nothing buffered: the ACK is repeated *)
        replace (a + m) with (a + m + 0) in Hrs1 by lia.
        destruct (drain_out_seq 1 (a + 1 + N.of_nat g) hist1 r1 (a + m + 0) 0 s [] None n1
                    (mk_chan (repeat (ack_dgram a) stale ++ [ack_dgram (a + m)]) None (n2 + 1)) Hrs1) as (r2 & hist2 & Hrun2 & Hrs2).
        { intros i Hi. unfold rest in Hlastblk. lia. }
        cbn [datas app] in Hrun2. fold d in Hrun2. change (0 =? 0) with true in Hrun2. cbv iota in Hrun2.
        replace (a + m + 0) with (a + m) in * by lia.
        rewrite chan_puts_clean in Hrun2 by (intros i Hi; cbn [repeat] in Hi; rewrite lenN_cons, lenN_nil in Hi; replace i with (n2 + 1) by lia; exact Hf3).
        cbn [repeat] in Hrun2. rewrite <- app_assoc in Hrun2. cbn [app] in Hrun2. rewrite lenN_cons, lenN_nil in Hrun2.
        destruct (half_b s r2 a r0 stale 1 n1 (n2 + 1 + (0 + 1)) Hss) as (p' & Hrun3 & Hres).
        { fold m. destruct (N.eqb_spec (a + m) nb); [contradiction|]. exists hist2. exact Hrs2. }
        fold m in Hrun3, Hres. cbn [repeat] in Hrun3.
        exists (N.to_nat m + (1 + (stale + 1)))%nat, p'. split; [rewrite run_add, Hrun1, run_add, Hrun2; exact Hrun3|].
        destruct (N.eqb_spec (a + m) nb); [contradiction|]. destruct Hres as (s' & hist' & Hp' & Hss' & Hrs').
        exists s', r2, hist', 1%nat, (n2 + 1 + (0 + 1)). split; [exact Hp'|]. split; [exact Hss'|]. split; [exact Hrs'|lia].
    - (* the doubled datagram is inside the window: its second copy is ignored *)
      replace (datas (a + 1) g ++ d :: d :: datas (a + N.of_nat g + 2) rest)
        with (datas (a + 1) (g + 1) ++ d :: datas (a + N.of_nat g + 2) rest)
        by (rewrite datas_app; cbn [datas app]; rewrite <- app_assoc; reflexivity).
      destruct (drain_buffer (g + 1) hist r a 0 s (d :: datas (a + N.of_nat g + 2) rest) None n1
                  (mk_chan (repeat (ack_dgram a) stale) None n2) Hrs) as (r1 & hist1 & Hrun1 & Hrs1); try (unfold rest in Hmid; lia).
      destruct (drain_out_seq 1 (a + 1 + N.of_nat g) hist1 r1 (a + N.of_nat (g + 1)) (0 + N.of_nat (g + 1)) s
                  (datas (a + N.of_nat g + 2) rest) None n1 (mk_chan (repeat (ack_dgram a) stale) None n2) Hrs1)
        as (r2 & hist2 & Hrun2 & Hrs2).
      { intros i Hi. lia. }
      cbn [datas app] in Hrun2. fold d in Hrun2.
      replace (0 + N.of_nat (g + 1) =? 0) with false in Hrun2 by lia.
      change (chan_puts f_rs ?c []) with c in Hrun2.
      replace (a + N.of_nat g + 2) with (a + N.of_nat (g + 1) + 1) in Hrun1, Hrun2 |- * by lia.
      destruct (drain_in_seq rest hist2 r2 (a + N.of_nat (g + 1)) (0 + N.of_nat (g + 1)) s [] None n1
                  (mk_chan (repeat (ack_dgram a) stale) None n2) Hrs2) as (r3 & Hrun3 & Hfin3); try (unfold rest in *; lia).
      rewrite app_nil_r in Hrun3.
      replace (a + N.of_nat (g + 1) + N.of_nat rest) with (a + m) in * by (unfold rest in *; lia).
      rewrite Hclean1 in Hrun3.
      destruct (half_b s r3 a r0 stale 0 n1 (n2 + 1) Hss) as (p' & Hrun4 & Hres).
      { fold m. exact Hfin3. }
      fold m in Hrun4, Hres. cbn [repeat] in Hrun4.
      exists (g + 1 + (1 + (rest + (stale + 1))))%nat, p'.
      split; [rewrite run_add, Hrun1, run_add, Hrun2, run_add, Hrun3; exact Hrun4|].
      destruct (N.eqb_spec (a + m) nb); [exact Hres|]. destruct Hres as (s' & hist' & Hp' & Hss' & Hrs').
      exists s', r3, hist', O, (n2 + 1). split; [exact Hp'|]. split; [exact Hss'|]. split; [exact Hrs'|lia].
  Qed.

  Lemma data_dup_from_emit : forall k s r a hist n1 n2 i, nb - a <= N.of_nat k ->
    SS s a 0 -> RS hist r a 0 -> one_dup f_sr i -> clean_from f_rs n2 -> n1 <= i ->
    exists fuel, Final (run fuel (emit_state s r a n1 n2 0)).
  Proof.
    intros k. induction k as [|k IH]; intros s r a hist n1 n2 i Hk Hss Hrs [Hd Hother] Hc2 Hi;
      pose proof (SS_len _ _ _ Hss) as (Ha & Hlen & Hpos); [lia|].
    destruct (N.lt_ge_cases i (n1 + wlen s)) as [Hin|Hout].
    - set (g := N.to_nat (i - n1)).
      rewrite (emit_dup s r a n1 n2 O g) by
        (try (unfold g; lia); try (replace (n1 + N.of_nat g) with i by (unfold g; lia); exact Hd);
         intros j Hj; apply Hother; unfold g in Hj; lia).
      destruct (dup_round s r a 0 O hist (n1 + wlen s) n2 g Hss Hrs ltac:(unfold g; lia)) as (fuel1 & p' & Hrun1 & Hres);
        try (apply Hc2; lia).
      destruct (N.eqb_spec (a + wlen s) nb) as [Hlast|Hnot].
      + exists fuel1. rewrite Hrun1. exact Hres.
      + destruct Hres as (s' & r' & hist' & x & n2' & -> & Hss' & Hrs' & Hn2').
        pose proof (SS_len _ _ _ Hss') as (_ & _ & Hpos').
        rewrite emit_clean in Hrun1 by (intros j Hj; apply Hother; lia).
        destruct (perfect_from_sync k s' r' (a + wlen s) 0 0 x hist' (n1 + wlen s + wlen s') n2'
                    ltac:(lia) Hss' ltac:(replace (a + wlen s + 0) with (a + wlen s) by lia; exact Hrs') ltac:(lia))
          as (fuel2 & Hfin).
        { intros j Hj. apply Hother. lia. }
        { intros j Hj. apply Hc2. lia. }
        exists (fuel1 + fuel2)%nat. rewrite run_add, Hrun1. exact Hfin.
    - rewrite emit_clean by (intros j Hj; apply Hother; lia).
      assert (Hrs0 : RS hist r (a + 0) 0) by (replace (a + 0) with a by lia; exact Hrs).
      destruct (round_gen s r a 0 0 O hist (n1 + wlen s) n2 Hss Hrs0 ltac:(lia) ltac:(apply Hc2; lia))
        as (fuel1 & p' & Hrun1 & Hres).
      destruct (N.eqb_spec (a + wlen s) nb) as [Hlast|Hnot].
      + exists fuel1. rewrite Hrun1. exact Hres.
      + destruct Hres as (s' & r' & hist' & -> & Hss' & Hrs').
        destruct (IH s' r' (a + wlen s) hist' (n1 + wlen s) (n2 + 1) i ltac:(lia) Hss' Hrs' (conj Hd Hother))
          as (fuel2 & Hfin); [intros j Hj; apply Hc2; lia|lia|].
        exists (fuel1 + fuel2)%nat. rewrite run_add, Hrun1. exact Hfin.
  Qed.

  (** ** One datagram held back and released behind its successor (reordering) *)

  Definition one_hold (fs : list (N * fault)) (i : N) : Prop :=
    fault_at fs i = NfHold /\ forall k, k <> i -> fault_at fs k = NfDeliver.

  Lemma chan_puts_hold : forall fs d q n, fault_at fs n = NfHold ->
    chan_puts fs (mk_chan q None n) [d] = mk_chan q (Some d) (n + 1).
  Proof. intros fs d q n H. unfold chan_puts. cbn [fold_left]. unfold chan_put. cbn [ch_n ch_held ch_q]. rewrite H. reflexivity. Qed.

  Lemma chan_puts_release : forall fs d ds h q n, clean fs n (n + lenN (d :: ds)) ->
    chan_puts fs (mk_chan q (Some h) n) (d :: ds) = mk_chan (q ++ d :: h :: ds) None (n + lenN (d :: ds)).
  Proof.
    intros fs d ds h q n Hc. rewrite chan_puts_cons. unfold chan_put at 1. cbn [ch_n ch_held ch_q].
    rewrite (Hc n) by (rewrite lenN_cons; lia). rewrite chan_puts_clean.
    - rewrite <- !app_assoc, lenN_cons. cbn [app]. f_equal. lia.
    - intros i Hi. apply Hc. rewrite lenN_cons. lia.
  Qed.

  (** The window emitted with its [g]-th datagram held: inside the window it comes out behind its successor. *)
  Lemma emit_hold_mid : forall s r a n1 n2 stale g, N.of_nat g + 1 < wlen s ->
    clean f_sr n1 (n1 + N.of_nat g) -> fault_at f_sr (n1 + N.of_nat g) = NfHold ->
    clean f_sr (n1 + N.of_nat g + 1) (n1 + wlen s) ->
    emit_state s r a n1 n2 stale =
      mk_pair s r (mk_chan (datas (a + 1) g ++ data_dgram blk F (a + 1 + N.of_nat g + 1) :: data_dgram blk F (a + 1 + N.of_nat g) ::
                            datas (a + N.of_nat g + 3) (N.to_nat (wlen s) - g - 2)) None (n1 + wlen s))
              (mk_chan (repeat (ack_dgram a) stale) None n2).
  Proof.
    intros s r a n1 n2 stale g Hg Hc1 Hd Hc2. unfold emit_state. f_equal.
    replace (N.to_nat (wlen s)) with (g + (1 + (1 + (N.to_nat (wlen s) - g - 2))))%nat at 1 by lia.
    rewrite !datas_app, !chan_puts_app. rewrite chan_puts_clean by (unfold lenN; rewrite datas_length; exact Hc1).
    unfold lenN at 1. rewrite datas_length. cbn [datas app]. rewrite chan_puts_hold by exact Hd.
    rewrite chan_puts_release by (intros i Hi; apply Hc2; rewrite lenN_cons, lenN_nil in Hi; lia).
    rewrite chan_puts_clean.
    - rewrite lenN_cons, lenN_nil. unfold lenN. rewrite datas_length. rewrite <- !app_assoc. cbn [app]. f_equal; [|lia].
      replace (a + 1 + N.of_nat g + N.of_nat 1) with (a + 1 + N.of_nat g + 1) by lia.
      replace (a + 1 + N.of_nat g + 1 + N.of_nat 1) with (a + N.of_nat g + 3) by lia. reflexivity.
    - rewrite lenN_cons, lenN_nil. unfold lenN. rewrite datas_length. intros i Hi. apply Hc2. lia.
  Qed.

  (** ... as the last datagram of the window it stays held until something else is sent. *)
  Lemma emit_hold_last : forall s r a n1 n2 stale, clean f_sr n1 (n1 + wlen s - 1) ->
    fault_at f_sr (n1 + wlen s - 1) = NfHold -> 1 <= wlen s ->
    emit_state s r a n1 n2 stale =
      mk_pair s r (mk_chan (datas (a + 1) (N.to_nat (wlen s) - 1)) (Some (data_dgram blk F (a + wlen s))) (n1 + wlen s))
              (mk_chan (repeat (ack_dgram a) stale) None n2).
  Proof.
    intros s r a n1 n2 stale Hc1 Hd Hpos. unfold emit_state. f_equal.
    replace (N.to_nat (wlen s)) with ((N.to_nat (wlen s) - 1) + 1)%nat at 1 by lia.
    rewrite datas_app, chan_puts_app. rewrite chan_puts_clean by (unfold lenN; rewrite datas_length; intros i Hi; apply Hc1; lia).
    unfold lenN. rewrite datas_length. cbn [datas app].
    rewrite chan_puts_hold by (replace (n1 + N.of_nat (N.to_nat (wlen s) - 1)) with (n1 + wlen s - 1) by lia; exact Hd).
    f_equal; [f_equal; f_equal; lia|lia].
  Qed.

  (** Recovery from a swap inside the window: the receiver takes the blocks before it, skips the
      one that came too early, takes the late one, ignores the rest; silence; the window goes out again. *)
  Lemma swap_recovery : forall s r a stale hist n1 n2 g, SS s a 0 -> RS hist r a 0 -> N.of_nat g + 1 < wlen s ->
    clean_from f_sr n1 -> clean_from f_rs n2 ->
    exists fuel s' r' hist' n2',
      run fuel (mk_pair s r (mk_chan (datas (a + 1) g ++ data_dgram blk F (a + 1 + N.of_nat g + 1) :: data_dgram blk F (a + 1 + N.of_nat g) ::
                                      datas (a + N.of_nat g + 3) (N.to_nat (wlen s) - g - 2)) None n1)
                        (mk_chan (repeat (ack_dgram a) stale) None n2)) =
        sync_state s' r' a (n1 + wlen s') n2' 0 /\
      SS s' a 1 /\ RS hist' r' (a + N.of_nat (g + 1)) (N.of_nat (g + 1)) /\ N.of_nat (g + 1) < wlen s' /\ n2 <= n2'.
  Proof.
    intros s r a stale hist n1 n2 g Hss Hrs Hg Hc1 Hc2.
    pose proof (SS_len _ _ _ Hss) as (Ha & Hlen & Hpos). set (m := wlen s) in *.
    set (rest := (N.to_nat m - g - 2)%nat). pose proof Hwf as (_ & _ & Hw).
    set (dlate := data_dgram blk F (a + 1 + N.of_nat g)). set (dearly := data_dgram blk F (a + 1 + N.of_nat g + 1)).
    (* 1. the blocks before the swap are buffered *)
    destruct (drain_buffer g hist r a 0 s (dearly :: dlate :: datas (a + N.of_nat g + 3) rest) None n1
                (mk_chan (repeat (ack_dgram a) stale) None n2) Hrs ltac:(lia) ltac:(lia)) as (r1 & hist1 & Hrun1 & Hrs1).
    (* 2. the successor comes first: out of sequence *)
    destruct (drain_out_seq 1 (a + 1 + N.of_nat g + 1) hist1 r1 (a + N.of_nat g) (0 + N.of_nat g) s
                (dlate :: datas (a + N.of_nat g + 3) rest) None n1 (mk_chan (repeat (ack_dgram a) stale) None n2) Hrs1)
      as (r2 & hist2 & Hrun2 & Hrs2).
    { intros i Hi. lia. }
    cbn [datas app] in Hrun2. fold dearly in Hrun2.
    set (extra := if 0 + N.of_nat g =? 0 then 1%nat else O).
    assert (Hq : chan_puts f_rs (mk_chan (repeat (ack_dgram a) stale) None n2)
                   (if 0 + N.of_nat g =? 0 then repeat (ack_dgram (a + N.of_nat g)) 1 else []) =
                 mk_chan (repeat (ack_dgram a) (stale + extra)) None (n2 + N.of_nat extra)).
    { unfold extra. destruct (N.eqb_spec (0 + N.of_nat g) 0) as [Hz|Hnz].
      - rewrite chan_puts_clean by (intros i Hi; apply Hc2; lia).
        replace (a + N.of_nat g) with a by lia. rewrite repeat_app. unfold lenN. rewrite repeat_length. reflexivity.
      - change (chan_puts f_rs ?c []) with c. rewrite Nat.add_0_r, N.add_0_r. reflexivity. }
    rewrite Hq in Hrun2.
    (* 3. the late one is in sequence now *)
    destruct (drain_buffer 1 hist2 r2 (a + N.of_nat g) (0 + N.of_nat g) s (datas (a + N.of_nat g + 3) rest) None n1
                (mk_chan (repeat (ack_dgram a) (stale + extra)) None (n2 + N.of_nat extra)) Hrs2 ltac:(lia) ltac:(lia))
      as (r3 & hist3 & Hrun3 & Hrs3).
    cbn [datas app] in Hrun3. replace (a + N.of_nat g + 1) with (a + 1 + N.of_nat g) in Hrun3 by lia. fold dlate in Hrun3.
    (* 4. what follows is out of sequence, with blocks buffered: ignored *)
    destruct (drain_out_seq rest (a + N.of_nat g + 3) hist3 r3 (a + N.of_nat g + N.of_nat 1) (0 + N.of_nat g + N.of_nat 1) s [] None n1
                (mk_chan (repeat (ack_dgram a) (stale + extra)) None (n2 + N.of_nat extra)) Hrs3) as (r4 & hist4 & Hrun4 & Hrs4).
    { intros i Hi. unfold rest in Hi. lia. }
    rewrite app_nil_r in Hrun4.
    replace (0 + N.of_nat g + N.of_nat 1 =? 0) with false in Hrun4 by lia.
    change (chan_puts f_rs ?c []) with c in Hrun4.
    (* 5. the sender reads the repeated ACK, if any; silence; the timer fires *)
    destruct (drain_stale (stale + extra) s a 0 r4 None n1 [] None (n2 + N.of_nat extra) Hss) as (s5 & Hrun5 & Hss5 & Hl5).
    rewrite app_nil_r in Hrun5.
    destruct (send_retx s5 a 0 Hss5 one_retry) as (s6 & out & E6 & Hss6 & Hl6 & Hout6).
    exists (g + (1 + (1 + (rest + ((stale + extra) + 1)))))%nat, s6, r4, hist4, (n2 + N.of_nat extra).
    split; [|split; [exact Hss6|split; [|split; [rewrite Hl6, Hl5; fold m; lia|lia]]]].
    - rewrite run_add, Hrun1, run_add, Hrun2, run_add, Hrun3, run_add, Hrun4, run_add, Hrun5.
      cbn [pair_run]. rewrite step_tmo by apply Hss5. rewrite E6. cbn [fst snd].
      rewrite Hout6. unfold sync_state. rewrite chan_puts_clean by (intros i Hi; apply Hc1; lia).
      cbn [app repeat]. unfold lenN. rewrite datas_length, N2Nat.id, Hl6. reflexivity.
    - replace (a + N.of_nat (g + 1)) with (a + N.of_nat g + N.of_nat 1) by lia.
      replace (N.of_nat (g + 1)) with (0 + N.of_nat g + N.of_nat 1) by lia. exact Hrs4.
  Qed.

  (** The last datagram of a window held: the receiver buffers the others and waits; the timer
      fires; the first datagram of the retransmission releases the held one. *)
  Lemma hold_last_recovery : forall s r a stale hist n1 n2, SS s a 0 -> RS hist r a 0 ->
    clean_from f_sr n1 -> clean_from f_rs n2 ->
    exists fuel p',
      run fuel (mk_pair s r (mk_chan (datas (a + 1) (N.to_nat (wlen s) - 1)) (Some (data_dgram blk F (a + wlen s))) n1)
                        (mk_chan (repeat (ack_dgram a) stale) None n2)) = p' /\
      if a + wlen s =? nb then Final p'
      else exists s' r' hist' x n1' n2', p' = emit_state s' r' (a + wlen s) n1' n2' x /\
             SS s' (a + wlen s) 0 /\ RS hist' r' (a + wlen s) 0 /\ n1 <= n1' /\ n2 <= n2'.
  Proof.
    intros s r a stale hist n1 n2 Hss Hrs Hc1 Hc2.
    pose proof (SS_len _ _ _ Hss) as (Ha & Hlen & Hpos). set (m := wlen s) in *.
    pose proof Hwf as (_ & _ & Hw). set (dl := data_dgram blk F (a + m)).
    (* 1. the other blocks of the window are buffered *)
    destruct (drain_buffer (N.to_nat m - 1) hist r a 0 s [] (Some dl) n1 (mk_chan (repeat (ack_dgram a) stale) None n2) Hrs
                ltac:(lia) ltac:(lia)) as (r1 & hist1 & Hrun1 & Hrs1).
    rewrite app_nil_r in Hrun1.
    (* 2. the sender reads the repeated ACKs; silence; the timer fires; the retransmission releases the held datagram *)
    destruct (drain_stale stale s a 0 r1 (Some dl) n1 [] None n2 Hss) as (s2 & Hrun2 & Hss2 & Hl2).
    rewrite app_nil_r in Hrun2.
    destruct (send_retx s2 a 0 Hss2 one_retry) as (s3 & out & E3 & Hss3 & Hl3 & Hout3).
    assert (Hm3 : wlen s3 = m) by (rewrite Hl3; exact Hl2).
    assert (Hrun3 : run (N.to_nat m - 1 + (stale + 1))
                      (mk_pair s r (mk_chan (datas (a + 1) (N.to_nat m - 1)) (Some dl) n1) (mk_chan (repeat (ack_dgram a) stale) None n2)) =
                    mk_pair s3 r1 (mk_chan (data_dgram blk F (a + 1) :: dl :: datas (a + 1 + 1) (N.to_nat m - 1)) None (n1 + m))
                            (mk_chan [] None n2)).
    { rewrite run_add, Hrun1, run_add, Hrun2. cbn [pair_run]. rewrite step_tmo by apply Hss2. rewrite E3. cbn [fst snd].
      rewrite Hout3, Hl2. fold m.
      replace (datas (a + 1) (N.to_nat m)) with (data_dgram blk F (a + 1) :: datas (a + 1 + 1) (N.to_nat m - 1))
        by (replace (N.to_nat m) with (S (N.to_nat m - 1)) at 2 by lia; reflexivity).
      rewrite chan_puts_release by (intros i Hi; apply Hc1; lia). cbn [app]. rewrite lenN_cons. unfold lenN. rewrite datas_length.
      f_equal. f_equal. lia. }
    assert (Hclean1 : forall q, chan_puts f_rs (mk_chan q None n2) [ack_dgram (a + m)] = mk_chan (q ++ [ack_dgram (a + m)]) None (n2 + 1)).
    { intros q. rewrite chan_puts_clean; [reflexivity|]. intros i Hi. apply Hc2. lia. }
    destruct (N.eq_dec m 1) as [Hone|Hmore].
    - (* a window of one block: the retransmission and the released copy are the same block *)
      replace (N.to_nat m - 1)%nat with O in * by lia. cbn [datas] in Hrun3.
      replace (N.of_nat 0) with 0 in Hrs1 by reflexivity. replace (a + 0) with a in Hrs1 by lia. replace (0 + 0) with 0 in Hrs1 by lia.
      assert (Hdl : dl = data_dgram blk F (a + 1)) by (unfold dl; rewrite Hone; reflexivity).
      destruct (drain_in_seq 1 hist1 r1 a 0 s3 [dl] None (n1 + m) (mk_chan [] None n2) Hrs1) as (r4 & Hrun4 & Hfin4); try lia.
      cbn [datas app] in Hrun4. replace (a + N.of_nat 1) with (a + m) in * by lia. rewrite Hclean1 in Hrun4. cbn [app] in Hrun4.
      destruct (N.eqb_spec (a + m) nb) as [Hlast|Hnot].
      + exists (N.to_nat m - 1 + (stale + 1) + (1 + (0 + 1)))%nat. eexists. split; [reflexivity|].
        replace (N.to_nat m - 1)%nat with O by lia. cbn [datas]. rewrite run_add, Hrun3, run_add, Hrun4.
        destruct Hfin4 as [Hp Hfile]. rewrite <- Hm3 in Hlast |- *.
        apply (finish_with_leftover s3 r4 a (0 + 1) O _ _ Hss3 Hlast Hp Hfile).
      + destruct Hfin4 as [hist4 Hrs4]. replace (a + m) with (a + m + 0) in Hrs4 by lia.
        destruct (drain_out_seq 1 (a + 1) hist4 r4 (a + m + 0) 0 s3 [] None (n1 + m) (mk_chan [ack_dgram (a + m)] None (n2 + 1)) Hrs4)
          as (r5 & hist5 & Hrun5 & Hrs5).
        { intros i Hi. lia. }
        cbn [datas app] in Hrun5. rewrite <- Hdl in Hrun5. change (0 =? 0) with true in Hrun5. cbv iota in Hrun5.
        replace (a + m + 0) with (a + m) in * by lia.
        rewrite chan_puts_clean in Hrun5 by (intros i Hi; apply Hc2; lia). cbn [repeat app] in Hrun5.
        rewrite lenN_cons, lenN_nil in Hrun5.
        destruct (half_b s3 r5 a (0 + 1) O 1 (n1 + m) (n2 + 1 + (0 + 1)) Hss3) as (p' & Hrun6 & Hres).
        { rewrite Hm3. destruct (N.eqb_spec (a + m) nb); [contradiction|]. exists hist5. exact Hrs5. }
        rewrite Hm3 in Hrun6, Hres. cbn [repeat app] in Hrun6.
        exists (N.to_nat m - 1 + (stale + 1) + (1 + (1 + (0 + 1))))%nat, p'.
        split; [replace (N.to_nat m - 1)%nat with O by lia; cbn [datas]; rewrite run_add, Hrun3, run_add, Hrun4, run_add, Hrun5; exact Hrun6|].
        destruct (N.eqb_spec (a + m) nb); [contradiction|]. destruct Hres as (s' & hist' & Hp' & Hss' & Hrs').
        exists s', r5, hist', 1%nat, (n1 + m), (n2 + 1 + (0 + 1)).
        split; [exact Hp'|]. split; [exact Hss'|]. split; [exact Hrs'|lia].
    - (* two or more blocks: the first retransmitted block is ignored, the released one completes the window *)
      replace (N.of_nat (N.to_nat m - 1)) with (m - 1) in Hrs1 by lia.
      destruct (drain_out_seq 1 (a + 1) hist1 r1 (a + (m - 1)) (0 + (m - 1)) s3 (dl :: datas (a + 1 + 1) (N.to_nat m - 1)) None (n1 + m)
                  (mk_chan [] None n2) Hrs1) as (r4 & hist4 & Hrun4 & Hrs4).
      { intros i Hi. lia. }
      cbn [datas app] in Hrun4. replace (0 + (m - 1) =? 0) with false in Hrun4 by lia.
      change (chan_puts f_rs ?c []) with c in Hrun4.
      destruct (drain_in_seq 1 hist4 r4 (a + (m - 1)) (0 + (m - 1)) s3 (datas (a + 1 + 1) (N.to_nat m - 1)) None (n1 + m)
                  (mk_chan [] None n2) Hrs4) as (r5 & Hrun5 & Hfin5); try lia.
      cbn [datas app] in Hrun5. replace (a + (m - 1) + 1) with (a + m) in Hrun5 by lia. fold dl in Hrun5.
      replace (a + (m - 1) + N.of_nat 1) with (a + m) in * by lia. rewrite Hclean1 in Hrun5. cbn [app] in Hrun5.
      destruct (N.eqb_spec (a + m) nb) as [Hlast|Hnot].
      + exists (N.to_nat m - 1 + (stale + 1) + (1 + (1 + (0 + 1))))%nat. eexists. split; [reflexivity|].
        rewrite run_add, Hrun3, run_add, Hrun4, run_add, Hrun5.
        destruct Hfin5 as [Hp Hfile]. rewrite <- Hm3 in Hlast |- *.
        apply (finish_with_leftover s3 r5 a (0 + 1) O _ _ Hss3 Hlast Hp Hfile).
      + destruct Hfin5 as [hist5 Hrs5]. replace (a + m) with (a + m + 0) in Hrs5 by lia.
        destruct (drain_out_seq (N.to_nat m - 1) (a + 1 + 1) hist5 r5 (a + m + 0) 0 s3 [] None (n1 + m)
                    (mk_chan [ack_dgram (a + m)] None (n2 + 1)) Hrs5) as (r6 & hist6 & Hrun6 & Hrs6).
        { intros i Hi. lia. }
        rewrite app_nil_r in Hrun6. change (0 =? 0) with true in Hrun6. cbv iota in Hrun6.
        replace (a + m + 0) with (a + m) in * by lia.
        rewrite chan_puts_clean in Hrun6 by (intros i Hi; apply Hc2; lia). cbn [app] in Hrun6.
        unfold lenN in Hrun6. rewrite repeat_length in Hrun6.
        destruct (half_b s3 r6 a (0 + 1) O (N.to_nat m - 1) (n1 + m) (n2 + 1 + N.of_nat (N.to_nat m - 1)) Hss3) as (p' & Hrun7 & Hres).
        { rewrite Hm3. destruct (N.eqb_spec (a + m) nb); [contradiction|]. exists hist6. exact Hrs6. }
        rewrite Hm3 in Hrun7, Hres. cbn [repeat app] in Hrun7.
        exists (N.to_nat m - 1 + (stale + 1) + (1 + (1 + ((N.to_nat m - 1) + (0 + 1)))))%nat, p'.
        split; [rewrite run_add, Hrun3, run_add, Hrun4, run_add, Hrun5, run_add, Hrun6; exact Hrun7|].
        destruct (N.eqb_spec (a + m) nb); [contradiction|]. destruct Hres as (s' & hist' & Hp' & Hss' & Hrs').
        exists s', r6, hist', (N.to_nat m - 1)%nat, (n1 + m), (n2 + 1 + N.of_nat (N.to_nat m - 1)).
        split; [exact Hp'|]. split; [exact Hss'|]. split; [exact Hrs'|lia].
  Qed.

  Lemma data_hold_from_emit : forall k s r a hist n1 n2 i, nb - a <= N.of_nat k ->
    SS s a 0 -> RS hist r a 0 -> one_hold f_sr i -> clean_from f_rs n2 -> n1 <= i ->
    exists fuel, Final (run fuel (emit_state s r a n1 n2 0)).
  Proof.
    intros k. induction k as [|k IH]; intros s r a hist n1 n2 i Hk Hss Hrs [Hd Hother] Hc2 Hi;
      pose proof (SS_len _ _ _ Hss) as (Ha & Hlen & Hpos); [lia|].
    destruct (N.lt_ge_cases i (n1 + wlen s)) as [Hin|Hout].
    - set (g := N.to_nat (i - n1)).
      destruct (N.lt_ge_cases (N.of_nat g + 1) (wlen s)) as [Hmid|Hlastblk].
      + (* held inside the window: it comes out behind its successor *)
        rewrite (emit_hold_mid s r a n1 n2 O g) by
          (try exact Hmid; try (replace (n1 + N.of_nat g) with i by (unfold g; lia); exact Hd);
           intros j Hj; apply Hother; unfold g in Hj; lia).
        destruct (swap_recovery s r a O hist (n1 + wlen s) n2 g Hss Hrs Hmid) as
          (fuel1 & s' & r' & hist' & n2' & Hrun1 & Hss' & Hrs' & Hg' & Hn2'); try assumption.
        { intros j Hj. apply Hother. lia. }
        destruct (perfect_from_sync (S k) s' r' a 1 (N.of_nat (g + 1)) O hist' (n1 + wlen s + wlen s') n2' Hk Hss' Hrs' Hg')
          as (fuel2 & Hfin).
        { intros j Hj. apply Hother. lia. }
        { intros j Hj. apply Hc2. lia. }
        exists (fuel1 + fuel2)%nat. rewrite run_add, Hrun1. exact Hfin.
      + (* the last datagram of the window is held *)
        rewrite (emit_hold_last s r a n1 n2 O) by
          (try exact Hpos; try (replace (n1 + wlen s - 1) with i by (unfold g in *; lia); exact Hd);
           intros j Hj; apply Hother; unfold g in *; lia).
        destruct (hold_last_recovery s r a O hist (n1 + wlen s) n2 Hss Hrs) as (fuel1 & p' & Hrun1 & Hres); try assumption.
        { intros j Hj. apply Hother. lia. }
        destruct (N.eqb_spec (a + wlen s) nb) as [Hlast|Hnot].
        * exists fuel1. rewrite Hrun1. exact Hres.
        * destruct Hres as (s' & r' & hist' & x & n1' & n2' & -> & Hss' & Hrs' & Hn1' & Hn2').
          pose proof (SS_len _ _ _ Hss') as (_ & _ & Hpos').
          rewrite emit_clean in Hrun1 by (intros j Hj; apply Hother; lia).
          destruct (perfect_from_sync k s' r' (a + wlen s) 0 0 x hist' (n1' + wlen s') n2'
                      ltac:(lia) Hss' ltac:(replace (a + wlen s + 0) with (a + wlen s) by lia; exact Hrs') ltac:(lia))
            as (fuel2 & Hfin).
          { intros j Hj. apply Hother. lia. }
          { intros j Hj. apply Hc2. lia. }
          exists (fuel1 + fuel2)%nat. rewrite run_add, Hrun1. exact Hfin.
    - rewrite emit_clean by (intros j Hj; apply Hother; lia).
      assert (Hrs0 : RS hist r (a + 0) 0) by (replace (a + 0) with a by lia; exact Hrs).
      destruct (round_gen s r a 0 0 O hist (n1 + wlen s) n2 Hss Hrs0 ltac:(lia) ltac:(apply Hc2; lia))
        as (fuel1 & p' & Hrun1 & Hres).
      destruct (N.eqb_spec (a + wlen s) nb) as [Hlast|Hnot].
      + exists fuel1. rewrite Hrun1. exact Hres.
      + destruct Hres as (s' & r' & hist' & -> & Hss' & Hrs').
        destruct (IH s' r' (a + wlen s) hist' (n1 + wlen s) (n2 + 1) i ltac:(lia) Hss' Hrs' (conj Hd Hother))
          as (fuel2 & Hfin); [intros j Hj; apply Hc2; lia|lia|].
        exists (fuel1 + fuel2)%nat. rewrite run_add, Hrun1. exact Hfin.
  Qed.

  (** *** A held ACK: it is released behind the next datagram the receiver sends *)
  Lemma ack_hold_from_emit : forall k s r a hist n1 n2 i, nb - a <= N.of_nat k ->
    SS s a 0 -> RS hist r a 0 -> one_hold f_rs i -> clean_from f_sr n1 -> n2 <= i ->
    exists fuel, FinalR (run fuel (emit_state s r a n1 n2 0)) /\
      (s_phase (p_s (run fuel (emit_state s r a n1 n2 0))) = SDone OutOk \/
       ch_n (p_rs (run fuel (emit_state s r a n1 n2 0))) = i + 1).
  Proof.
    intros k. induction k as [|k IH]; intros s r a hist n1 n2 i Hk Hss Hrs [Hd Hother] Hc1 Hi;
      pose proof (SS_len _ _ _ Hss) as (Ha & Hlen & Hpos); [lia|].
    rewrite emit_clean by (intros j Hj; apply Hc1; lia).
    assert (Hrs0 : RS hist r (a + 0) 0) by (replace (a + 0) with a by lia; exact Hrs).
    unfold sync_state. set (m := wlen s) in *. pose proof Hwf as (_ & _ & Hw).
    destruct (N.eq_dec i n2) as [->|Hne].
    - (* this round's ACK is the one that is held *)
      destruct (half_a s r a 0 0 O hist (n1 + m) n2 [] (Some (ack_dgram (a + m))) Hss Hrs0 ltac:(lia))
        as (s1 & r1 & Hrun1 & Hss1 & Hl1 & Hfin1).
      { cbn [repeat app]. apply chan_puts_hold. exact Hd. }
      fold m in Hrun1, Hfin1, Hl1. cbn [repeat] in Hrun1 |- *.
      destruct (N.eqb_spec (a + m) nb) as [Hlast|Hnot].
      + (* it was the last ACK of the transfer and nothing will ever release it *)
        exists (N.to_nat m + 0)%nat. rewrite Hrun1. cbn [p_r p_s p_rs ch_n]. split; [exact Hfin1|right; reflexivity].
      + destruct Hfin1 as [hist1 Hrs1].
        destruct (send_retx s1 a 0 Hss1 one_retry) as (s2 & out & E2 & Hss2 & Hl2 & Hout2).
        replace (a + m) with (a + m + 0) in Hrs1 by lia.
        destruct (drain_out_seq (N.to_nat m) (a + 1) hist1 r1 (a + m + 0) 0 s2 [] None (n1 + m + m)
                    (mk_chan [] (Some (ack_dgram (a + m))) (n2 + 1)) ltac:(replace (a + m + 0) with (a + m) in * by lia; exact Hrs1))
          as (r2 & hist2 & Hrun3 & Hrs2).
        { intros j Hj. lia. }
        rewrite app_nil_r in Hrun3. change (0 =? 0) with true in Hrun3. cbv iota in Hrun3.
        replace (a + m + 0) with (a + m) in * by lia.
        (* the first repeated ACK releases the held one *)
        assert (Hrep : repeat (ack_dgram (a + m)) (N.to_nat m) = ack_dgram (a + m) :: repeat (ack_dgram (a + m)) (N.to_nat m - 1)).
        { replace (N.to_nat m) with (S (N.to_nat m - 1)) at 1 by lia. reflexivity. }
        rewrite Hrep in Hrun3. rewrite chan_puts_release in Hrun3 by (intros j Hj; apply Hother; lia).
        cbn [app] in Hrun3. rewrite lenN_cons in Hrun3. unfold lenN in Hrun3. rewrite repeat_length in Hrun3.
        assert (Hm2 : wlen s2 = m) by (rewrite Hl2; exact Hl1).
        destruct (send_ack_window s2 a (0 + 1) Hss2) as (s3 & out3 & E3 & Hres3). rewrite Hm2 in E3, Hres3.
        destruct (N.eqb_spec (a + m) nb) as [|_]; [contradiction|]. destruct Hres3 as [Hss3 Hout3].
        pose proof (SS_len _ _ _ Hss3) as (_ & _ & Hpos3).
        destruct (perfect_from_sync k s3 r2 (a + m) 0 0 (S (N.to_nat m - 1)) hist2 (n1 + m + m + wlen s3)
                    (n2 + 1 + (N.of_nat (N.to_nat m - 1) + 1))
                    ltac:(lia) Hss3 ltac:(replace (a + m + 0) with (a + m) by lia; exact Hrs2) ltac:(lia))
          as (fuel4 & Hfin4).
        { intros j Hj. apply Hc1. lia. }
        { intros j Hj. apply Hother. lia. }
        exists (N.to_nat m + 0 + 1 + N.to_nat m + 1 + fuel4)%nat.
        assert (Hrun : run (N.to_nat m + 0 + 1 + N.to_nat m + 1)
                         (mk_pair s r (mk_chan (datas (a + 1) (N.to_nat m)) None (n1 + m)) (mk_chan [] None n2)) =
                       sync_state s3 r2 (a + m) (n1 + m + m + wlen s3) (n2 + 1 + (N.of_nat (N.to_nat m - 1) + 1)) (S (N.to_nat m - 1))).
        { rewrite (run_add (N.to_nat m + 0 + 1 + N.to_nat m) 1), (run_add (N.to_nat m + 0 + 1) (N.to_nat m)),
                  (run_add (N.to_nat m + 0) 1), Hrun1.
          cbn [pair_run]. rewrite step_tmo by apply Hss1. rewrite E2. cbn [fst snd]. rewrite Hout2, Hl1.
          rewrite chan_puts_clean by (intros j Hj; apply Hc1; lia). cbn [app]. unfold lenN. rewrite datas_length, N2Nat.id.
          rewrite Hrun3. rewrite step_send by apply Hss2. rewrite E3. cbn [fst snd]. rewrite Hout3.
          rewrite chan_puts_clean by (intros j Hj; apply Hc1; lia). cbn [app]. unfold lenN. rewrite datas_length, N2Nat.id.
          reflexivity. }
        rewrite (run_add (N.to_nat m + 0 + 1 + N.to_nat m + 1) fuel4), Hrun.
        destruct Hfin4 as (Hf1 & Hf2 & Hf3). split; [split; assumption|left; exact Hf3].
    - destruct (round_gen s r a 0 0 O hist (n1 + m) n2 Hss Hrs0 ltac:(lia) ltac:(apply Hother; lia))
        as (fuel1 & p' & Hrun1 & Hres). fold m in Hres. unfold sync_state in Hrun1. fold m in Hrun1.
      destruct (N.eqb_spec (a + m) nb) as [Hlast|Hnot].
      + exists fuel1. rewrite Hrun1. destruct Hres as (Hf1 & Hf2 & Hf3). split; [split; assumption|left; exact Hf3].
      + destruct Hres as (s' & r' & hist' & -> & Hss' & Hrs').
        destruct (IH s' r' (a + m) hist' (n1 + m) (n2 + 1) i ltac:(lia) Hss' Hrs' (conj Hd Hother))
          as (fuel2 & Hfin); [intros j Hj; apply Hc1; lia|lia|].
        exists (fuel1 + fuel2)%nat. rewrite run_add, Hrun1. exact Hfin.
  Qed.
  (** * Every fault schedule

      The rest of this section drops every assumption about where the faults fall.  [G] is an
      invariant of the closed system under every schedule (as long as the sender has not given
      up): the sender is in the window after block [a], the receiver holds [c] blocks of which
      [j] are buffered and is either inside that window ([c = a + j]) or has just completed it
      ([c = a + wlen], its ACK possibly lost), every datagram in flight towards the receiver is
      a block of the file that the sender has sent, every datagram in flight towards the sender
      acknowledges a block the receiver has flushed.  From any such state, once the faults have
      stopped, one more time-out is enough to get the transfer moving again
      ([recover_advance]), so it completes ([recover_complete]). *)

  (** ** Steps of the closed system in the general position *)

  Lemma step_recv_gen : forall s r d q h n rs, r_phase r = RRun ->
    step (mk_pair s r (mk_chan (d :: q) h n) rs) =
      Some (mk_pair s (fst (recv_step rc r (EvDgram 0 d))) (mk_chan q h n)
                    (chan_puts f_rs rs (acked_bytes (snd (recv_step rc r (EvDgram 0 d)))))).
  Proof. exact step_recv. Qed.

  Definition recv_idle (r : rstate) (sr : chan) : Prop := ch_q sr = [] \/ r_running r = false.

  Lemma step_send_gen : forall s r sr d q h' n', recv_idle r sr -> s_phase s = SInWindow ->
    step (mk_pair s r sr (mk_chan (d :: q) h' n')) =
      Some (mk_pair (fst (send_step sc s (EvDgram 0 d))) r
                    (chan_puts f_sr sr (sent_bytes (snd (send_step sc s (EvDgram 0 d)))))
                    (mk_chan q h' n')).
  Proof.
    intros s r sr d q h' n' Hi Hp. unfold pair_step. cbn [p_sr p_r p_s p_rs ch_q ch_held ch_n].
    unfold s_running. rewrite Hp. destruct (send_step sc s (EvDgram 0 d)) as [s' out].
    destruct Hi as [Hi|Hi]; rewrite Hi; [reflexivity|]. destruct (ch_q sr); reflexivity.
  Qed.

  Lemma step_tmo_gen : forall s r sr h' n', recv_idle r sr -> s_phase s = SInWindow ->
    step (mk_pair s r sr (mk_chan [] h' n')) =
      Some (mk_pair (fst (send_step sc s (EvFail (s_tmo sc)))) r
                    (chan_puts f_sr sr (sent_bytes (snd (send_step sc s (EvFail (s_tmo sc))))))
                    (mk_chan [] h' n')).
  Proof.
    intros s r sr h' n' Hi Hp. unfold pair_step. cbn [p_sr p_r p_s p_rs ch_q ch_held ch_n].
    unfold s_running. rewrite Hp. destruct (send_step sc s (EvFail (s_tmo sc))) as [s' out].
    destruct Hi as [Hi|Hi]; rewrite Hi; [reflexivity|]. destruct (ch_q sr); reflexivity.
  Qed.

  (** An ACK of any block before the window: nothing happens. *)
  Lemma send_stale_gen : forall st a r c', SS st a r -> c' <= a -> nb <= 65535 ->
    exists st', send_step sc st (EvDgram 0 (ack_dgram c')) = (st', []) /\ SS st' a r /\ wlen st' = wlen st.
  Proof.
    intros st a r c' Hss Hle Hn. pose proof (SS_len _ _ _ Hss) as (Ha & Hlen & Hpos).
    destruct Hss as (Hi & Hp & Ht & Habs & Hsince & Hretry).
    pose proof (receive_ack_dgram c' 0) as Hr.
    pose proof Hi as [(A & B & C & D & E & G & I & J & K & L) _].
    assert (Hout : ~ (wsub16 (c' mod 65536) (s_bn st) < lenN (w_elems (s_w st)))).
    { rewrite E, Habs. unfold wsub16. unfold wlen in *. destruct Hwf as (_ & _ & Hw). lia. }
    exists (with_since st 0). split.
    - apply (stale_ack_is_inert sc F st _ _ Hwf Hi Hp Hr Hout). cbn [ev_delay]. lia.
    - split; [|reflexivity]. unfold SS. cbn [with_since s_phase s_abs s_since s_retry].
      split; [apply with_since_inv; exact Hi|]. split; [exact Hp|]. split; [exact Ht|]. split; [exact Habs|]. split; [lia|exact Hretry].
  Qed.

  (** The time-out that exhausts the budget: the sender gives up. *)
  Lemma send_give_up : forall st a r, SS st a r -> r + 1 = max_retries ->
    exists st', send_step sc st (EvFail (s_tmo sc)) = (st', []) /\ s_phase st' = SDone OutTimeout.
  Proof.
    intros st a r (Hi & Hp & Ht & Habs & Hsince & Hretry) Hr.
    rewrite step_failed_attempt by (auto; exact I). rewrite Hretry.
    destruct (N.eqb_spec (r + 1) max_retries) as [_|Ne]; [|contradiction].
    eexists. split; [reflexivity|]. reflexivity.
  Qed.

  (** ** The invariant *)

  Definition dat_ok (top : N) (d : bytes) : Prop := exists k, d = data_dgram blk F k /\ 1 <= k <= top.

  Definition ackG (a top c : N) (d : bytes) : Prop :=
    exists c', d = ack_dgram c' /\ (c' <= a \/ (c' = top /\ c = top)).

  Definition RG (r : rstate) (a wl c j : N) : Prop :=
    ((exists hist, RS hist r c j) /\ ((c = a + j /\ j < wl) \/ (c = a + wl /\ j = 0 /\ c < nb)))
    \/ (r_phase r = RDone OutOk /\ written_bytes (w_file (r_w r)) = F /\ c = nb /\ c = a + wl /\ j = 0).

  Definition G (p : pair_state) (a r0 c j : N) : Prop :=
    SS (p_s p) a r0 /\ RG (p_r p) a (wlen (p_s p)) c j /\
    Forall (dat_ok (a + wlen (p_s p))) (in_flight (p_sr p)) /\
    Forall (ackG a (a + wlen (p_s p)) c) (in_flight (p_rs p)).

  Lemma in_flight_tail : forall (P : bytes -> Prop) d q h n,
    Forall P (in_flight (mk_chan (d :: q) h n)) -> P d /\ Forall P (in_flight (mk_chan q h n)).
  Proof.
    intros P d q h n H. unfold in_flight in *. cbn [ch_q ch_held] in *. cbn [app] in H.
    inversion H; subst. split; assumption.
  Qed.

  (** What the receiver makes of the datagram at the head of its queue. *)
  Lemma G_recv : forall s r d q h n rs a r0 c j, nb <= 65535 ->
    G (mk_pair s r (mk_chan (d :: q) h n) rs) a r0 c j -> r_phase r = RRun ->
    exists r' acks c' j',
      step (mk_pair s r (mk_chan (d :: q) h n) rs) = Some (mk_pair s r' (mk_chan q h n) (chan_puts f_rs rs acks)) /\
      G (mk_pair s r' (mk_chan q h n) (chan_puts f_rs rs acks)) a r0 c' j' /\
      ((d = data_dgram blk F (c + 1) /\ c = a + j /\ c' = c + 1 /\
          ((j + 1 < wlen s /\ acks = [] /\ j' = j + 1 /\ r_phase r' = RRun) \/
           (j + 1 = wlen s /\ acks = [ack_dgram (c + 1)] /\ j' = 0)))
       \/ (d <> data_dgram blk F (c + 1) /\ c' = c /\ j' = j /\ r_phase r' = RRun /\
           acks = if j =? 0 then [ack_dgram c] else [])).
  Proof.
    intros s r d q h n rs a r0 c j Hn (Hss & Hrg & Hsr & Hrs) Hp. cbn [p_s p_r p_sr p_rs] in *.
    pose proof (SS_len _ _ _ Hss) as (Ha & Hlen & Hpos). set (wl := wlen s) in *.
    destruct (in_flight_tail _ _ _ _ _ Hsr) as [(k & -> & Hk1 & Hk2) Hsr'].
    rewrite step_recv_gen by exact Hp.
    destruct Hrg as [[(hist & Hrs0) Hrel]|(Hd & _)]; [|congruence].
    destruct (N.eq_dec k (c + 1)) as [->|Hne].
    - (* the next block *)
      assert (Hc : c = a + j /\ j < wl) by (destruct Hrel as [?|(? & ? & ?)]; [assumption|lia]).
      destruct Hc as [Hc Hj].
      destruct (recv_in_seq hist r c j Hrs0 ltac:(lia)) as (r' & out & E & Hres). rewrite E. cbn [fst snd].
      assert (Hflush : (c + 1 =? nb) || (j + 1 =? ws) = (j + 1 =? wl)) by lia.
      rewrite Hflush in Hres. destruct (N.eqb_spec (j + 1) wl) as [Hfl|Hnf].
      + destruct Hres as [Hout Hst]. exists r', [ack_dgram (c + 1)], (c + 1), 0. rewrite Hout.
        split; [reflexivity|]. split.
        * unfold G. cbn [p_s p_r p_sr p_rs]. fold wl. split; [exact Hss|]. split.
          -- unfold RG. destruct (N.eqb_spec (c + 1) nb) as [Hl|Hnl].
             ++ right. destruct Hst as [H1 H2]. repeat split; try assumption; lia.
             ++ left. split; [eexists; exact Hst|]. right. lia.
          -- split; [exact Hsr'|]. apply Forall_in_flight_puts.
             ++ eapply Forall_impl; [|exact Hrs]. intros x (c' & -> & Hx). exists c'. split; [reflexivity|]. lia.
             ++ constructor; [|constructor]. exists (c + 1). split; [reflexivity|]. right. lia.
        * left. repeat split; try reflexivity; try assumption. right. repeat split; try reflexivity. exact Hfl.
      + destruct Hres as [-> Hst]. exists r', [], (c + 1), (j + 1).
        cbn [acked_bytes sent_bytes map filter]. split; [reflexivity|]. split.
        * unfold G. cbn [p_s p_r p_sr p_rs]. fold wl. split; [exact Hss|]. split.
          -- left. split; [eexists; exact Hst|]. left. lia.
          -- split; [exact Hsr'|]. change (chan_puts f_rs rs []) with rs.
             eapply Forall_impl; [|exact Hrs]. intros x (c' & -> & Hx). exists c'. split; [reflexivity|]. lia.
        * left. repeat split; try reflexivity; try assumption. left. repeat split; try reflexivity; try lia. apply Hst.
    - (* any other block *)
      destruct (recv_out_seq hist r c j k Hrs0 ltac:(lia)) as (r' & out & E & Hst & Hout). rewrite E. cbn [fst snd].
      exists r', (if j =? 0 then [ack_dgram c] else []), c, j. rewrite Hout.
      split; [reflexivity|]. split.
      + unfold G. cbn [p_s p_r p_sr p_rs]. fold wl. split; [exact Hss|]. split.
        * left. split; [eexists; exact Hst|exact Hrel].
        * split; [exact Hsr'|]. apply Forall_in_flight_puts; [exact Hrs|].
          destruct (N.eqb_spec j 0) as [Hz|_]; [|constructor]. constructor; [|constructor].
          exists c. split; [reflexivity|]. destruct Hrel as [?|(? & ? & ?)]; [left; lia|right; lia].
      + right. split.
        * intros Heq. pose proof (receive_data k 0) as R1. pose proof (receive_data (c + 1) 0) as R2.
          rewrite Heq, R2 in R1. injection R1 as R1 _. lia.
        * repeat split; try reflexivity. apply Hst.
  Qed.

  Lemma In_datas : forall m k0 x, In x (datas k0 m) -> exists k, x = data_dgram blk F k /\ k0 <= k < k0 + N.of_nat m.
  Proof.
    intros m. induction m as [|m IH]; intros k0 x H; cbn [datas In] in H; [contradiction|].
    destruct H as [<-|H]; [exists k0; split; [reflexivity|lia]|].
    destruct (IH _ _ H) as (k & -> & Hk). exists k. split; [reflexivity|lia].
  Qed.

  Lemma RG_idle_SS : forall r a wl c j, RG r a wl c j -> r_running r = true \/ r_phase r = RDone OutOk.
  Proof.
    intros r a wl c j [[(hist & H) _]|(H & _)]; [left|right; exact H].
    destruct H as (_ & Hp & _). unfold r_running. rewrite Hp. reflexivity.
  Qed.

  (** What the sender makes of the datagram at the head of its queue. *)
  Lemma G_send : forall s r sr d q h n a r0 c j, nb <= 65535 ->
    G (mk_pair s r sr (mk_chan (d :: q) h n)) a r0 c j -> recv_idle r sr ->
    exists s' burst,
      step (mk_pair s r sr (mk_chan (d :: q) h n)) = Some (mk_pair s' r (chan_puts f_sr sr burst) (mk_chan q h n)) /\
      ((d <> ack_dgram (a + wlen s) /\ burst = [] /\ wlen s' = wlen s /\
        G (mk_pair s' r sr (mk_chan q h n)) a r0 c j)
       \/ (d = ack_dgram (a + wlen s) /\ c = a + wlen s /\ j = 0 /\
           ((c = nb /\ burst = [] /\ s_phase s' = SDone OutOk) \/
            (c < nb /\ burst = datas (c + 1) (N.to_nat (wlen s')) /\
             G (mk_pair s' r (chan_puts f_sr sr burst) (mk_chan q h n)) c 0 c 0)))).
  Proof.
    intros s r sr d q h n a r0 c j Hn (Hss & Hrg & Hsr & Hrs) Hidle. cbn [p_s p_r p_sr p_rs] in *.
    pose proof (SS_len _ _ _ Hss) as (Ha & Hlen & Hpos). set (wl := wlen s) in *.
    destruct (in_flight_tail _ _ _ _ _ Hrs) as [(c' & -> & Hc') Hrs'].
    rewrite step_send_gen by (try exact Hidle; apply Hss).
    destruct Hc' as [Hle|[-> Hctop]].
    - (* an old ACK *)
      destruct (send_stale_gen s a r0 c' Hss Hle Hn) as (s' & E & Hss' & Hl'). rewrite E. cbn [fst snd sent_bytes map filter].
      exists s', []. split; [reflexivity|]. left. split.
      + intros Heq. pose proof (receive_ack_dgram c' 0) as R1. pose proof (receive_ack_dgram (a + wl) 0) as R2.
        rewrite Heq, R2 in R1. injection R1 as R1. lia.
      + split; [reflexivity|]. split; [exact Hl'|].
        unfold G. cbn [p_s p_r p_sr p_rs]. rewrite Hl'. fold wl.
        split; [exact Hss'|]. split; [exact Hrg|]. split; [exact Hsr|exact Hrs'].
    - (* the ACK of the whole window *)
      assert (Hj : j = 0).
      { destruct Hrg as [[_ [(? & ?)|(? & ? & ?)]]|(_ & _ & _ & _ & ?)]; [lia|assumption|assumption]. }
      destruct (send_ack_window s a r0 Hss) as (s' & out & E & Hres). fold wl in E, Hres. rewrite E. cbn [fst snd].
      exists s', (sent_bytes out). split; [reflexivity|]. right. split; [reflexivity|]. split; [exact Hctop|]. split; [exact Hj|].
      subst c j.
      destruct (N.eqb_spec (a + wl) nb) as [Hlast|Hnot].
      + destruct Hres as [-> Hd]. left. split; [lia|]. split; [reflexivity|exact Hd].
      + destruct Hres as [Hss' Hout]. right. split; [lia|]. rewrite Hout. split; [reflexivity|].
        pose proof (SS_len _ _ _ Hss') as (Ha' & Hlen' & Hpos').
        unfold G. cbn [p_s p_r p_sr p_rs]. split; [exact Hss'|]. split.
        * destruct Hrg as [[Hh [(? & ?)|(_ & _ & Hlt)]]|(_ & _ & ? & _)]; [lia| |lia].
          left. split; [exact Hh|]. left. lia.
        * split.
          -- apply Forall_in_flight_puts.
             ++ eapply Forall_impl; [|exact Hsr]. intros x (k & -> & Hk). exists k. split; [reflexivity|]. lia.
             ++ rewrite Forall_forall. intros x Hx. destruct (In_datas _ _ _ Hx) as (k & -> & Hk).
                exists k. split; [reflexivity|]. lia.
          -- eapply Forall_impl; [|exact Hrs']. intros x (c'' & -> & Hx). exists c''. split; [reflexivity|]. left. lia.
  Qed.

  Lemma SS_retry : forall st a r, SS st a r -> r < max_retries.
  Proof. intros st a r (((_ & _ & _ & _ & _ & _ & _ & _ & _ & L) & _) & _ & _ & _ & _ & Hr). rewrite <- Hr. exact L. Qed.

  (** The sender's time-out. *)
  Lemma G_tmo : forall s r sr h n a r0 c j,
    G (mk_pair s r sr (mk_chan [] h n)) a r0 c j -> recv_idle r sr ->
    (r0 + 1 < max_retries /\
     exists s', step (mk_pair s r sr (mk_chan [] h n)) =
                  Some (mk_pair s' r (chan_puts f_sr sr (datas (a + 1) (N.to_nat (wlen s)))) (mk_chan [] h n)) /\
                wlen s' = wlen s /\
                G (mk_pair s' r (chan_puts f_sr sr (datas (a + 1) (N.to_nat (wlen s)))) (mk_chan [] h n)) a (r0 + 1) c j)
    \/ (r0 + 1 = max_retries /\
        exists s', step (mk_pair s r sr (mk_chan [] h n)) = Some (mk_pair s' r sr (mk_chan [] h n)) /\
                   s_phase s' = SDone OutTimeout).
  Proof.
    intros s r sr h n a r0 c j (Hss & Hrg & Hsr & Hrs) Hidle. cbn [p_s p_r p_sr p_rs] in *.
    pose proof (SS_retry _ _ _ Hss) as Hr0.
    rewrite step_tmo_gen by (try exact Hidle; apply Hss).
    destruct (N.eq_dec (r0 + 1) max_retries) as [Heq|Hne].
    - right. split; [exact Heq|]. destruct (send_give_up s a r0 Hss Heq) as (s' & E & Hd). rewrite E. cbn [fst snd sent_bytes map filter].
      exists s'. split; [reflexivity|exact Hd].
    - left. split; [lia|]. destruct (send_retx s a r0 Hss ltac:(lia)) as (s' & out & E & Hss' & Hl' & Hout).
      rewrite E. cbn [fst snd]. rewrite Hout. exists s'. split; [reflexivity|]. split; [exact Hl'|].
      unfold G. cbn [p_s p_r p_sr p_rs]. rewrite Hl'. split; [exact Hss'|]. split; [exact Hrg|]. split; [|exact Hrs].
      apply Forall_in_flight_puts; [exact Hsr|]. rewrite Forall_forall. intros x Hx.
      destruct (In_datas _ _ _ Hx) as (k & -> & Hk). exists k. split; [reflexivity|]. lia.
  Qed.

  (** [G] holds initially, whatever happens to the first window. *)
  Lemma G_init : exists a r0 c j, G (pair_init sc rc f_sr F) a r0 c j.
  Proof.
    destruct init_emit as (s0 & -> & Hss). pose proof (SS_len _ _ _ Hss) as (Ha & Hlen & Hpos).
    exists 0, 0, 0, 0. unfold emit_state, G. cbn [p_s p_r p_sr p_rs repeat].
    split; [exact Hss|]. split.
    - left. split; [exists []; exact recv_init_RS|]. left. lia.
    - split; [|constructor]. apply Forall_in_flight_puts; [constructor|]. rewrite Forall_forall. intros x Hx.
      destruct (In_datas _ _ _ Hx) as (k & -> & Hk). exists k. split; [reflexivity|]. lia.
  Qed.

  Definition sender_left (p : pair_state) : Prop := s_running (p_s p) = false.

  (** One step from a [G] state: [G] again, or the sender has ended. *)
  Lemma G_step : forall p p' a r0 c j, nb <= 65535 -> G p a r0 c j -> step p = Some p' ->
    (exists a' r0' c' j', G p' a' r0' c' j') \/ sender_left p'.
  Proof.
    intros [s r [q1 h1 n1] [q2 h2 n2]] p' a r0 c j Hn Hg Hstep.
    pose proof Hg as (Hss & Hrg & _). cbn [p_s p_r] in Hss, Hrg.
    destruct (RG_idle_SS _ _ _ _ _ Hrg) as [Hrun|Hdone].
    - destruct q1 as [|d q1].
      + assert (Hidle : recv_idle r (mk_chan [] h1 n1)) by (left; reflexivity).
        destruct q2 as [|d q2].
        * destruct (G_tmo _ _ _ _ _ _ _ _ _ Hg Hidle) as [(_ & s' & E & _ & Hg')|(_ & s' & E & Hd)];
            rewrite E in Hstep; injection Hstep as <-.
          -- left. eauto.
          -- right. unfold sender_left, s_running. cbn [p_s]. rewrite Hd. reflexivity.
        * destruct (G_send _ _ _ _ _ _ _ _ _ _ _ Hn Hg Hidle) as (s' & burst & E & Hres).
          rewrite E in Hstep. injection Hstep as <-.
          destruct Hres as [(_ & -> & _ & Hg')|(_ & _ & _ & [(_ & _ & Hd)|(_ & _ & Hg')])].
          -- left. eauto.
          -- right. unfold sender_left, s_running. cbn [p_s]. rewrite Hd. reflexivity.
          -- left. eauto.
      + assert (Hp : r_phase r = RRun) by (unfold r_running in Hrun; destruct (r_phase r); [reflexivity|discriminate]).
        destruct (G_recv _ _ _ _ _ _ _ _ _ _ _ Hn Hg Hp) as (r' & acks & c' & j' & E & Hg' & _).
        rewrite E in Hstep. injection Hstep as <-. left. eauto.
    - assert (Hidle : recv_idle r (mk_chan q1 h1 n1)) by (right; unfold r_running; rewrite Hdone; reflexivity).
      destruct q2 as [|d q2].
      + destruct (G_tmo _ _ _ _ _ _ _ _ _ Hg Hidle) as [(_ & s' & E & _ & Hg')|(_ & s' & E & Hd)];
          rewrite E in Hstep; injection Hstep as <-.
        * left. eauto.
        * right. unfold sender_left, s_running. cbn [p_s]. rewrite Hd. reflexivity.
      + destruct (G_send _ _ _ _ _ _ _ _ _ _ _ Hn Hg Hidle) as (s' & burst & E & Hres).
        rewrite E in Hstep. injection Hstep as <-.
        destruct Hres as [(_ & -> & _ & Hg')|(_ & _ & _ & [(_ & _ & Hd)|(_ & _ & Hg')])].
        * left. eauto.
        * right. unfold sender_left, s_running. cbn [p_s]. rewrite Hd. reflexivity.
        * left. eauto.
  Qed.

  Lemma sender_left_step : forall p p', sender_left p -> step p = Some p' -> sender_left p'.
  Proof.
    intros p p' Hl Hstep. unfold sender_left in *. unfold pair_step in Hstep. rewrite Hl in Hstep.
    destruct (ch_q (p_sr p)) as [|d q]; destruct (r_running (p_r p)); destruct (ch_q (p_rs p)) as [|d2 q2];
      try discriminate;
      match type of Hstep with (let '(_, _) := ?x in _) = _ => destruct x end; injection Hstep as <-; exact Hl.
  Qed.

  (** [G] is an invariant of every run, under every fault schedule, until the sender ends. *)
  Lemma G_run : forall fuel p, nb <= 65535 -> (exists a r0 c j, G p a r0 c j) \/ sender_left p ->
    (exists a r0 c j, G (run fuel p) a r0 c j) \/ sender_left (run fuel p).
  Proof.
    intros fuel. induction fuel as [|fuel IH]; intros p Hn H; cbn [pair_run]; [exact H|].
    destruct (step p) as [p'|] eqn:E; [|exact H]. apply IH; [exact Hn|].
    destruct H as [(a & r0 & c & j & Hg)|Hl].
    - exact (G_step _ _ _ _ _ _ Hn Hg E).
    - right. exact (sender_left_step _ _ Hl E).
  Qed.

  (** ** Once the faults have stopped *)

  (** What an undisturbed channel makes of a burst: a datagram held back earlier comes out
      behind the first one. *)
  Definition weave (h : option bytes) (ds : list bytes) : list bytes :=
    match ds, h with
    | d :: ds', Some x => d :: x :: ds'
    | _, _ => ds
    end.

  Lemma chan_puts_weave : forall fs q h n ds, clean_from fs n ->
    chan_puts fs (mk_chan q h n) ds =
      mk_chan (q ++ weave h ds) (match ds with [] => h | _ => None end) (n + lenN ds).
  Proof.
    intros fs q h n ds Hc. destruct ds as [|d ds].
    - unfold chan_puts. cbn [fold_left weave]. destruct h; rewrite app_nil_r, lenN_nil, N.add_0_r; reflexivity.
    - destruct h as [x|]; cbn [weave].
      + apply chan_puts_release. intros i Hi. apply Hc. lia.
      + apply chan_puts_clean. intros i Hi. apply Hc. lia.
  Qed.

  Lemma ch_n_puts : forall fs ds c, ch_n (chan_puts fs c ds) = ch_n c + lenN ds.
  Proof.
    intros fs ds. induction ds as [|d ds IH]; intros c.
    - unfold chan_puts. cbn [fold_left]. rewrite lenN_nil. lia.
    - rewrite chan_puts_cons, IH, lenN_cons.
      assert (ch_n (chan_put fs c d) = ch_n c + 1).
      { unfold chan_put. destruct (fault_at fs (ch_n c)); try reflexivity. destruct (ch_held c); reflexivity. }
      lia.
  Qed.

  Lemma clean_from_mono : forall fs lo lo', lo <= lo' -> clean_from fs lo -> clean_from fs lo'.
  Proof. intros fs lo lo' Hle H i Hi. apply H. lia. Qed.

  Definition CL (p : pair_state) : Prop :=
    clean_from f_sr (ch_n (p_sr p)) /\ clean_from f_rs (ch_n (p_rs p)).

  Definition msr (p : pair_state) : nat :=
    (2 * length (in_flight (p_sr p)) + length (in_flight (p_rs p)))%nat.

  Lemma in_flight_weave_length : forall q h n ds,
    length (in_flight (mk_chan (q ++ weave h ds) (match ds with [] => h | _ => None end) n)) =
    (length (in_flight (mk_chan q h n)) + length ds)%nat.
  Proof.
    intros q h n ds. unfold in_flight. cbn [ch_q ch_held].
    destruct ds as [|d ds]; destruct h as [x|]; cbn [weave]; rewrite ?app_length; cbn [length]; rewrite ?app_length; cbn [length]; lia.
  Qed.

  (** Order-preserving embedding of a list of datagrams in a queue. *)
  Inductive subseq : list bytes -> list bytes -> Prop :=
  | subseq_nil : forall q, subseq [] q
  | subseq_take : forall x l q, subseq l q -> subseq (x :: l) (x :: q)
  | subseq_skip : forall x l q, subseq l q -> subseq l (x :: q).

  Lemma subseq_tail : forall x l q, subseq (x :: l) q -> subseq l q.
  Proof.
    intros x l q H. remember (x :: l) as xl eqn:E. revert x l E.
    induction H as [q|y l' q H IH|y l' q H IH]; intros x l E; [discriminate| |].
    - injection E as -> ->. apply subseq_skip. exact H.
    - apply subseq_skip. eapply IH. exact E.
  Qed.

  Lemma subseq_pop : forall x l d q, subseq (x :: l) (d :: q) -> subseq l q /\ (d <> x -> subseq (x :: l) q).
  Proof.
    intros x l d q H. inversion H; subst.
    - split; [assumption|]. intros Hne. contradiction.
    - split; [eapply subseq_tail; eassumption|]. intros _. assumption.
  Qed.

  Lemma subseq_refl : forall l, subseq l l.
  Proof. intros l. induction l; constructor; assumption. Qed.

  Lemma subseq_app_l : forall l q q', subseq l q -> subseq l (q' ++ q).
  Proof. intros l q q' H. induction q' as [|x q' IH]; [exact H|]. cbn [app]. apply subseq_skip. exact IH. Qed.

  Lemma subseq_app_r : forall l q q', subseq l q -> subseq l (q ++ q').
  Proof. intros l q q' H. induction H; cbn [app]; constructor; assumption. Qed.

  Lemma subseq_weave : forall l h ds, subseq l ds -> subseq l (weave h ds).
  Proof.
    intros l h ds H. destruct ds as [|d ds]; [exact H|]. destruct h as [x|]; [|exact H]. cbn [weave].
    inversion H; subst.
    - constructor.
    - apply subseq_take. apply subseq_skip. assumption.
    - apply subseq_skip. apply subseq_skip. assumption.
  Qed.

  Lemma data_dgram_inj : forall k k', k <= 65535 -> k' <= 65535 -> data_dgram blk F k = data_dgram blk F k' -> k = k'.
  Proof.
    intros k k' Hk Hk' Heq. pose proof (receive_data k 0) as R1. pose proof (receive_data k' 0) as R2.
    rewrite Heq, R2 in R1. injection R1 as R1 _. lia.
  Qed.

  Lemma ack_dgram_inj : forall k k', k <= 65535 -> k' <= 65535 -> ack_dgram k = ack_dgram k' -> k = k'.
  Proof.
    intros k k' Hk Hk' Heq. pose proof (receive_ack_dgram k 0) as R1. pose proof (receive_ack_dgram k' 0) as R2.
    rewrite Heq, R2 in R1. injection R1 as R1. lia.
  Qed.

  (** The receiver is still at work, or its last ACK is on its way. *)
  Definition LiveOK (p : pair_state) : Prop :=
    r_phase (p_r p) = RDone OutOk -> In (ack_dgram nb) (ch_q (p_rs p)).

  (** After a retransmission: what will make the sender advance is queued. *)
  Definition Pend (p : pair_state) (top c : N) : Prop :=
    (c < top -> subseq (datas (c + 1) (N.to_nat (top - c))) (ch_q (p_sr p))) /\
    (c = top -> In (ack_dgram top) (ch_q (p_rs p)) \/ (r_running (p_r p) = true /\ ch_q (p_sr p) <> [])).

  Definition quiescent (p : pair_state) : Prop := ch_q (p_rs p) = [] /\ recv_idle (p_r p) (p_sr p).

  Lemma quiescent_dec : forall p, quiescent p \/ ~ quiescent p.
  Proof.
    intros p. unfold quiescent, recv_idle. destruct (ch_q (p_rs p)); [|right; intros [H _]; discriminate].
    destruct (ch_q (p_sr p)); [left; split; [reflexivity|left; reflexivity]|].
    destruct (r_running (p_r p)); [right; intros [_ [H|H]]; discriminate|left; split; [reflexivity|right; reflexivity]].
  Qed.

  Lemma chan_puts_nil : forall fs c, chan_puts fs c [] = c.
  Proof. reflexivity. Qed.

  Lemma RG_done : forall r a wl c j, RG r a wl c j -> r_phase r = RDone OutOk ->
    written_bytes (w_file (r_w r)) = F /\ c = nb /\ c = a + wl /\ j = 0.
  Proof.
    intros r a wl c j [[(hist & (_ & Hp & _)) _]|(_ & H)] Hd; [congruence|exact H].
  Qed.

  Lemma RG_top : forall r a wl c j, RG r a wl c j -> 1 <= wl -> c = a + wl ->
    j = 0 /\ (c = nb -> r_phase r = RDone OutOk /\ written_bytes (w_file (r_w r)) = F) /\
    (c < nb -> r_phase r = RRun).
  Proof.
    intros r a wl c j [[(hist & (_ & Hp & _)) [(? & ?)|(? & ? & ?)]]|(H1 & H2 & H3 & H4 & H5)] Hwl Hc.
    - lia.
    - split; [assumption|]. split; [lia|]. intros _. exact Hp.
    - split; [assumption|]. split; [intros _; split; assumption|lia].
  Qed.

  (** One step with the faults over, away from quiescence: the transfer is finished, or the
      sender has moved to the next window, or something in flight has been consumed. *)
  Lemma clean_step : forall p a r0 c j, nb <= 65535 -> G p a r0 c j -> CL p -> LiveOK p -> ~ quiescent p ->
    exists p', step p = Some p' /\ CL p' /\
      (Final p'
       \/ (exists a', a < a' /\ G p' a' 0 a' 0 /\ LiveOK p')
       \/ (exists c' j', G p' a r0 c' j' /\ LiveOK p' /\ (msr p' < msr p)%nat /\ wlen (p_s p') = wlen (p_s p) /\
             (Pend p (a + wlen (p_s p)) c -> Pend p' (a + wlen (p_s p)) c'))).
  Proof.
    intros [s r [q1 h1 n1] [q2 h2 n2]] a r0 c j Hn Hg [Hc1 Hc2] Hlive Hnq.
    cbn [p_s p_r p_sr p_rs ch_n] in *.
    pose proof Hg as (Hss & Hrg & Hsr & Hrs). cbn [p_s p_r p_sr p_rs] in Hss, Hrg, Hsr, Hrs.
    pose proof (SS_len _ _ _ Hss) as (Ha & Hlen & Hpos). set (wl := wlen s) in *. set (top := a + wl) in *.
    assert (Hcase : (exists d q, q1 = d :: q /\ r_phase r = RRun) \/
                    (recv_idle r (mk_chan q1 h1 n1) /\ exists d q, q2 = d :: q)).
    { destruct q1 as [|d q1].
      - right. split; [left; reflexivity|]. destruct q2 as [|d q2]; [|eauto].
        exfalso. apply Hnq. split; [reflexivity|left; reflexivity].
      - destruct (r_phase r) eqn:Hp; [left; eauto|].
        right. split; [right; unfold r_running; rewrite Hp; reflexivity|]. destruct q2 as [|d2 q2]; [|eauto].
        exfalso. apply Hnq. split; [reflexivity|right; unfold r_running; cbn [p_r]; rewrite Hp; reflexivity]. }
    destruct Hcase as [(d & q & -> & Hp)|(Hidle & d & q & ->)].
    - (* the receiver takes a datagram *)
      destruct (G_recv _ _ _ _ _ _ _ _ _ _ _ Hn Hg Hp) as (r' & acks & c' & j' & E & Hg' & Hdesc).
      rewrite chan_puts_weave in E, Hg' by exact Hc2.
      eexists. split; [exact E|]. split.
      { split; cbn [p_sr p_rs ch_n]; [exact Hc1|]. eapply clean_from_mono; [|exact Hc2]. lia. }
      right. right. exists c', j'. split; [exact Hg'|].
      assert (Hacks : (length acks <= 1)%nat).
      { destruct Hdesc as [(_ & _ & _ & [(_ & -> & _)|(_ & -> & _)])|(_ & _ & _ & _ & ->)]; cbn [length]; try lia.
        destruct (j =? 0); cbn [length]; lia. }
      split; [|split; [|split; [reflexivity|]]].
      + (* the receiver's last ACK is queued *)
        intros Hd. cbn [p_r p_rs ch_q] in *.
        destruct Hdesc as [(_ & Hcj & -> & [(_ & _ & _ & Hrun)|(Hfl & -> & _)])|(_ & _ & _ & Hrun & _)]; try congruence.
        destruct Hg' as (_ & Hrg' & _). cbn [p_r] in Hrg'.
        destruct (RG_done _ _ _ _ _ Hrg' Hd) as (_ & Hnb & _). rewrite Hnb.
        apply in_or_app. right. destruct h2; cbn [weave]; left; reflexivity.
      + unfold msr. cbn [p_sr p_rs]. rewrite in_flight_weave_length. unfold in_flight. cbn [ch_q ch_held app length]. lia.
      + (* what was pending still is *)
        fold wl. fold top. intros [P1 P2]. unfold Pend in *. cbn [p_s p_r p_sr p_rs ch_q] in *.
        destruct Hdesc as [(-> & Hcj & -> & [(Hnf & -> & -> & Hrun)|(Hfl & -> & ->)])|(Hne & -> & -> & Hrun & ->)].
        * split; [|intros Heq; unfold top in Heq; lia]. intros Hlt. specialize (P1 ltac:(lia)).
          replace (N.to_nat (top - c)) with (S (N.to_nat (top - (c + 1)))) in P1 by lia. cbn [datas] in P1.
          apply subseq_pop in P1. apply P1.
        * split; [intros Hlt; unfold top in Hlt; lia|]. intros _. left. apply in_or_app. right.
          replace top with (c + 1) by (unfold top; lia). destruct h2; cbn [weave]; left; reflexivity.
        * split.
          -- intros Hlt. specialize (P1 Hlt).
             replace (N.to_nat (top - c)) with (S (N.to_nat (top - (c + 1)))) in * by lia. cbn [datas] in *.
             apply subseq_pop in P1. apply P1. exact Hne.
          -- intros Heq. destruct (P2 Heq) as [Hin|_]; [left; apply in_or_app; left; exact Hin|].
             left. apply in_or_app. right.
             destruct (RG_top _ _ _ _ _ Hrg Hpos Heq) as (-> & _). cbn [N.eqb]. rewrite Heq.
             destruct h2; cbn [weave]; left; reflexivity.
    - (* the sender takes a datagram *)
      destruct (G_send _ _ _ _ _ _ _ _ _ _ _ Hn Hg Hidle) as (s' & burst & E & Hres).
      eexists. split; [exact E|].
      destruct Hres as [(Hne & -> & Hl' & Hg')|(-> & Hctop & -> & [(Hlast & -> & Hd)|(Hmore & -> & Hg')])].
      + (* an old ACK *)
        rewrite chan_puts_nil. split; [split; assumption|]. right. right. exists c, j. split; [exact Hg'|].
        split; [|split; [|split; [exact Hl'|]]].
        * intros Hd. cbn [p_r p_rs ch_q] in *. destruct (Hlive Hd) as [Heq|Hin]; [exfalso|exact Hin].
          destruct (RG_done _ _ _ _ _ Hrg Hd) as (_ & Hnb & Hct & _). apply Hne. rewrite Heq. fold wl. f_equal. lia.
        * unfold msr, in_flight. cbn [p_sr p_rs ch_q ch_held app length]. lia.
        * fold wl. fold top. intros [P1 P2]. unfold Pend in *. cbn [p_s p_r p_sr p_rs ch_q] in *. split; [exact P1|].
          intros Heq. destruct (P2 Heq) as [[Hx|Hin]|Hr]; [exfalso; apply Hne; exact Hx|left; exact Hin|right; exact Hr].
      + (* the last ACK of the transfer *)
        rewrite chan_puts_nil. split; [split; assumption|]. left.
        fold wl in Hctop. destruct (RG_top _ _ _ _ _ Hrg Hpos Hctop) as (_ & Hfin & _). destruct (Hfin Hlast) as [H1 H2].
        unfold Final. cbn [p_s p_r]. split; [exact H1|]. split; [exact H2|exact Hd].
      + (* the ACK of the window: the next window goes out *)
        split.
        { split; cbn [p_sr p_rs ch_n]; [|exact Hc2]. rewrite ch_n_puts. eapply clean_from_mono; [|exact Hc1]. cbn [ch_n]. lia. }
        right. left. exists c. split; [fold wl in Hctop; lia|]. split; [exact Hg'|].
        intros Hd. cbn [p_r] in Hd. fold wl in Hctop.
        destruct (RG_top _ _ _ _ _ Hrg Hpos Hctop) as (_ & _ & Hrun). rewrite (Hrun Hmore) in Hd. discriminate.
  Qed.

  (** Everything in flight is consumed: the transfer is finished, or the sender has moved to the
      next window, or the system has fallen silent. *)
  Lemma drain : forall m p a r0 c j, (msr p <= m)%nat -> nb <= 65535 -> G p a r0 c j -> CL p -> LiveOK p ->
    exists fuel p', run fuel p = p' /\ CL p' /\
      (Final p'
       \/ (exists a', a < a' /\ G p' a' 0 a' 0 /\ LiveOK p')
       \/ (exists c' j', G p' a r0 c' j' /\ LiveOK p' /\ quiescent p' /\ wlen (p_s p') = wlen (p_s p) /\
             (Pend p (a + wlen (p_s p)) c -> Pend p' (a + wlen (p_s p)) c'))).
  Proof.
    intros m. induction m as [|m IH]; intros p a r0 c j Hm Hn Hg Hcl Hlive.
    all: destruct (quiescent_dec p) as [Hq|Hnq];
      [exists O, p; split; [reflexivity|]; split; [exact Hcl|]; right; right; exists c, j;
       split; [exact Hg|]; split; [exact Hlive|]; split; [exact Hq|]; split; [reflexivity|intros H; exact H]|].
    all: destruct (clean_step p a r0 c j Hn Hg Hcl Hlive Hnq) as (p1 & E & Hcl1 & Hres).
    all: destruct Hres as [Hfin|[Hadv|(c1 & j1 & Hg1 & Hlive1 & Hlt & Hwl1 & Hpend1)]];
      try (exists 1%nat, p1; cbn [pair_run]; rewrite E; split; [reflexivity|]; split; [exact Hcl1|]; tauto).
    - lia.
    - destruct (IH p1 a r0 c1 j1 ltac:(lia) Hn Hg1 Hcl1 Hlive1) as (fuel & p' & Hrun & Hcl' & Hres').
      exists (S fuel), p'. cbn [pair_run]. rewrite E. split; [exact Hrun|]. split; [exact Hcl'|].
      destruct Hres' as [Hfin|[Hadv|(c' & j' & Hg' & Hlive' & Hq' & Hwl' & Hpend')]]; [tauto|tauto|].
      right. right. exists c', j'. split; [exact Hg'|]. split; [exact Hlive'|]. split; [exact Hq'|].
      split; [congruence|]. intros HP. rewrite Hwl1 in Hpend'. apply Hpend'. apply Hpend1. exact HP.
  Qed.

  (** Silence, the faults over: the sender's timer fires, and the window it sends again holds
      everything the receiver still needs. *)
  Lemma clean_tmo : forall p a r0 c j, G p a r0 c j -> CL p -> LiveOK p -> quiescent p -> r0 + 1 < max_retries ->
    exists p', step p = Some p' /\ CL p' /\ G p' a (r0 + 1) c j /\ LiveOK p' /\ wlen (p_s p') = wlen (p_s p) /\
      Pend p' (a + wlen (p_s p)) c.
  Proof.
    intros [s r [q1 h1 n1] [q2 h2 n2]] a r0 c j Hg [Hc1 Hc2] Hlive [Hq2 Hidle] Hr0.
    cbn [p_s p_r p_sr p_rs ch_n ch_q] in *. subst q2.
    pose proof Hg as (Hss & Hrg & Hsr & Hrs). cbn [p_s p_r p_sr p_rs] in Hss, Hrg, Hsr, Hrs.
    pose proof (SS_len _ _ _ Hss) as (Ha & Hlen & Hpos). set (wl := wlen s) in *. set (top := a + wl) in *.
    assert (Hp : r_phase r = RRun).
    { destruct (RG_idle_SS _ _ _ _ _ Hrg) as [Hrun|Hd]; [unfold r_running in Hrun; destruct (r_phase r); [reflexivity|discriminate]|].
      destruct (Hlive Hd). }
    assert (Hq1 : q1 = []).
    { destruct Hidle as [H|H]; [exact H|]. unfold r_running in H. cbn [p_r] in H. rewrite Hp in H. discriminate. }
    subst q1.
    destruct (G_tmo _ _ _ _ _ _ _ _ _ Hg Hidle) as [(_ & s' & E & Hl' & Hg')|(Hx & _)]; [|lia].
    fold wl in E, Hg'. rewrite chan_puts_weave in E, Hg' by exact Hc1. cbn [app] in E, Hg'.
    eexists. split; [exact E|]. split.
    { split; cbn [p_sr p_rs ch_n]; [|exact Hc2]. eapply clean_from_mono; [|exact Hc1]. lia. }
    split; [exact Hg'|]. split; [intros Hd; cbn [p_r] in Hd; congruence|]. split; [exact Hl'|].
    unfold Pend. cbn [p_s p_r p_sr p_rs ch_q]. split.
    - intros Hlt. fold top in Hlt.
      assert (Hcj : c = a + j /\ j < wl).
      { destruct Hrg as [[_ [?|(? & ? & ?)]]|(Hd & _)]; [assumption|unfold top in Hlt; lia|congruence]. }
      destruct Hcj as [Hcj Hj]. apply subseq_weave.
      replace (N.to_nat wl) with (N.to_nat j + N.to_nat (top - c))%nat by (unfold top; lia).
      rewrite datas_app. apply subseq_app_l.
      replace (a + 1 + N.of_nat (N.to_nat j)) with (c + 1) by lia. apply subseq_refl.
    - intros _. right. split; [unfold r_running; rewrite Hp; reflexivity|].
      destruct (N.to_nat wl) as [|m] eqn:Em; [lia|]. cbn [datas]. destruct h1; cbn [weave]; discriminate.
  Qed.

  (** From any state the system can be in, once the faults have stopped and the sender can still
      afford one time-out: the transfer finishes or the sender reaches the next window. *)
  Lemma recover_advance : forall p a r0 c j, nb <= 65535 -> G p a r0 c j -> CL p -> LiveOK p -> r0 + 1 < max_retries ->
    exists fuel p', run fuel p = p' /\ CL p' /\ (Final p' \/ exists a', a < a' /\ G p' a' 0 a' 0 /\ LiveOK p').
  Proof.
    intros p a r0 c j Hn Hg Hcl Hlive Hr0.
    destruct (drain (msr p) p a r0 c j (Nat.le_refl _) Hn Hg Hcl Hlive) as (f1 & p1 & Hrun1 & Hcl1 & Hres1).
    destruct Hres1 as [Hfin|[Hadv|(c1 & j1 & Hg1 & Hlive1 & Hq1 & Hwl1 & _)]];
      [exists f1, p1; tauto|exists f1, p1; tauto|].
    destruct (clean_tmo p1 a r0 c1 j1 Hg1 Hcl1 Hlive1 Hq1 Hr0) as (p2 & E2 & Hcl2 & Hg2 & Hlive2 & Hwl2 & Hpend2).
    destruct (drain (msr p2) p2 a (r0 + 1) c1 j1 (Nat.le_refl _) Hn Hg2 Hcl2 Hlive2) as (f3 & p3 & Hrun3 & Hcl3 & Hres3).
    assert (Hrun : run (f1 + (1 + f3)) p = p3).
    { rewrite run_add, Hrun1, run_add. cbn [pair_run]. rewrite E2. exact Hrun3. }
    exists (f1 + (1 + f3))%nat, p3. split; [exact Hrun|]. split; [exact Hcl3|].
    destruct Hres3 as [Hfin|[Hadv|(c3 & j3 & Hg3 & Hlive3 & Hq3 & Hwl3 & Hpend3)]]; [tauto|tauto|exfalso].
    rewrite Hwl2 in Hpend3. specialize (Hpend3 Hpend2). clear Hpend2.
    destruct Hg3 as (Hss3 & Hrg3 & _). pose proof (SS_len _ _ _ Hss3) as (_ & _ & Hpos3).
    rewrite Hwl3, Hwl2 in Hrg3, Hpos3. set (top := a + wlen (p_s p1)) in *.
    destruct Hq3 as [Hq3 Hidle3]. destruct Hpend3 as [P1 P2]. rewrite Hq3 in P2.
    destruct Hrg3 as [[(hist & (_ & Hp3 & _)) [(Hc & Hj)|(Hc & _ & _)]]|(Hd & _ & _ & Hc & _)].
    - (* inside the window: the blocks it needs were queued *)
      assert (Hidle : ch_q (p_sr p3) = []).
      { destruct Hidle3 as [H|H]; [exact H|]. unfold r_running in H. rewrite Hp3 in H. discriminate. }
      rewrite Hidle in P1. specialize (P1 ltac:(unfold top; lia)).
      destruct (N.to_nat (top - c3)) as [|m] eqn:Em; [unfold top in Em; lia|]. cbn [datas] in P1. inversion P1.
    - destruct (P2 Hc) as [[]|[Hrn Hne]]. destruct Hidle3 as [H|H]; [contradiction|congruence].
    - destruct (P2 Hc) as [[]|[Hrn _]]. unfold r_running in Hrn. rewrite Hd in Hrn. discriminate.
  Qed.

  Lemma recover_complete : forall k p a r0 c j, nb - a <= N.of_nat k -> nb <= 65535 ->
    G p a r0 c j -> CL p -> LiveOK p -> r0 + 1 < max_retries ->
    exists fuel, Final (run fuel p).
  Proof.
    intros k. induction k as [|k IH]; intros p a r0 c j Hk Hn Hg Hcl Hlive Hr0;
      pose proof (SS_len _ _ _ (proj1 Hg)) as (Ha & _ & _); [lia|].
    destruct (recover_advance p a r0 c j Hn Hg Hcl Hlive Hr0) as (f1 & p1 & Hrun1 & Hcl1 & [Hfin|(a' & Hlt & Hg1 & Hlive1)]).
    - exists f1. rewrite Hrun1. exact Hfin.
    - destruct (IH p1 a' 0 a' 0 ltac:(lia) Hn Hg1 Hcl1 Hlive1 one_retry) as (f2 & Hfin).
      exists (f1 + f2)%nat. rewrite run_add, Hrun1. exact Hfin.
  Qed.

  (** Every fault schedule, any number of steps into the run: if from here on nothing more is
      disturbed, neither side has ended and the sender can afford one more time-out, the
      transfer completes on both sides with exactly the file. *)
  Lemma recovers_from_run : forall fuel0, nb <= 65535 ->
    let p := run fuel0 (pair_init sc rc f_sr F) in
    CL p -> s_phase (p_s p) = SInWindow -> s_retry (p_s p) + 1 < max_retries -> r_phase (p_r p) = RRun ->
    exists fuel, Final (run fuel p).
  Proof.
    intros fuel0 Hn p Hcl Hs Hr Hrr.
    destruct (G_run fuel0 (pair_init sc rc f_sr F) Hn (or_introl G_init)) as [(a & r0 & c & j & Hg)|Hl].
    - fold p in Hg. pose proof (proj1 Hg) as Hss. destruct Hss as (_ & _ & _ & _ & _ & Hr0).
      apply (recover_complete (N.to_nat nb) p a r0 c j); try assumption; try lia.
      intros Hd. congruence.
    - fold p in Hl. unfold sender_left, s_running in Hl. rewrite Hs in Hl. discriminate.
  Qed.

  (** ** Every schedule ends *)

  (** The entries of a fault schedule that can still strike: those for datagrams not yet sent. *)
  Definition pending (fs : list (N * fault)) (n : N) : nat := length (filter (fun e => n <=? fst e) fs).

  Lemma pending_mono : forall fs n n', n <= n' -> (pending fs n' <= pending fs n)%nat.
  Proof.
    intros fs n n' Hle. unfold pending. induction fs as [|[i f] fs IH]; cbn [filter fst length]; [lia|].
    destruct (N.leb_spec n' i); destruct (N.leb_spec n i); cbn [length]; lia.
  Qed.

  Lemma pending_cases : forall fs n n', n <= n' -> clean fs n n' \/ (pending fs n' < pending fs n)%nat.
  Proof.
    intros fs n n' Hle. induction fs as [|[i f] fs IH].
    - left. intros k _. reflexivity.
    - pose proof (pending_mono fs n n' Hle) as Hm. unfold pending in *. cbn [filter fst].
      destruct (N.leb_spec n' i); destruct (N.leb_spec n i); cbn [length]; try lia.
      + destruct IH as [IH|IH]; [left|right; lia].
        intros k Hk. cbn [fault_at]. destruct (N.eqb_spec i k); [lia|]. apply IH. exact Hk.
      + destruct IH as [IH|IH]; [left|right; lia].
        intros k Hk. cbn [fault_at]. destruct (N.eqb_spec i k); [lia|]. apply IH. exact Hk.
  Qed.

  Lemma chan_puts_weave_b : forall fs q h n ds, clean fs n (n + lenN ds) ->
    chan_puts fs (mk_chan q h n) ds =
      mk_chan (q ++ weave h ds) (match ds with [] => h | _ => None end) (n + lenN ds).
  Proof.
    intros fs q h n ds Hc. destruct ds as [|d ds].
    - unfold chan_puts. cbn [fold_left weave]. destruct h; rewrite app_nil_r, lenN_nil, N.add_0_r; reflexivity.
    - destruct h as [x|]; cbn [weave].
      + apply chan_puts_release. exact Hc.
      + apply chan_puts_clean. exact Hc.
  Qed.

  Definition pend (p : pair_state) : nat :=
    (pending f_sr (ch_n (p_sr p)) + pending f_rs (ch_n (p_rs p)))%nat.

  (** The sender's transfer is over: completed on both sides, or given up after the retry limit. *)
  Definition ended (p : pair_state) : Prop := Final p \/ s_phase (p_s p) = SDone OutTimeout.

  (** Lexicographic descent: a scheduled fault has struck, or the sender has moved to the next
      window, or it has used one more of its attempts, or something in flight has been consumed. *)
  Definition lexdec (p : pair_state) (a r0 : N) (p' : pair_state) (a' r0' : N) : Prop :=
    (pend p' < pend p)%nat \/
    ((pend p' <= pend p)%nat /\ (a < a' \/ (a' = a /\ (r0 < r0' \/ (r0' = r0 /\ (msr p' < msr p)%nat))))).

  Lemma any_step : forall p a r0 c j, nb <= 65535 -> G p a r0 c j ->
    exists p', step p = Some p' /\
      (ended p' \/ exists a' r0' c' j', G p' a' r0' c' j' /\ lexdec p a r0 p' a' r0').
  Proof.
    intros [s r [q1 h1 n1] [q2 h2 n2]] a r0 c j Hn Hg.
    pose proof Hg as (Hss & Hrg & Hsr & Hrs). cbn [p_s p_r p_sr p_rs] in Hss, Hrg, Hsr, Hrs.
    pose proof (SS_len _ _ _ Hss) as (Ha & Hlen & Hpos).
    assert (Hcase : (exists d q, q1 = d :: q /\ r_phase r = RRun) \/ recv_idle r (mk_chan q1 h1 n1)).
    { destruct q1 as [|d q1]; [right; left; reflexivity|].
      destruct (r_phase r) eqn:Hp; [left; eauto|right; right; unfold r_running; rewrite Hp; reflexivity]. }
    destruct Hcase as [(d & q & -> & Hp)|Hidle].
    - (* the receiver takes a datagram *)
      destruct (G_recv _ _ _ _ _ _ _ _ _ _ _ Hn Hg Hp) as (r' & acks & c' & j' & E & Hg' & Hdesc).
      eexists. split; [exact E|]. right. exists a, r0, c', j'. split; [exact Hg'|].
      assert (Hacks : (length acks <= 1)%nat).
      { destruct Hdesc as [(_ & _ & _ & [(_ & -> & _)|(_ & -> & _)])|(_ & _ & _ & _ & ->)]; cbn [length]; try lia.
        destruct (j =? 0); cbn [length]; lia. }
      unfold lexdec, pend, msr. cbn [p_sr p_rs ch_n]. rewrite ch_n_puts. cbn [ch_n].
      destruct (pending_cases f_rs n2 (n2 + lenN acks) ltac:(lia)) as [Hcl|Hhit]; [right|left; lia].
      split; [pose proof (pending_mono f_rs n2 (n2 + lenN acks) ltac:(lia)); lia|].
      right. split; [reflexivity|]. right. split; [reflexivity|].
      rewrite chan_puts_weave_b by exact Hcl. rewrite in_flight_weave_length.
      unfold in_flight. cbn [ch_q ch_held app length]. lia.
    - destruct q2 as [|d q2].
      + (* silence: the sender's timer fires *)
        destruct (G_tmo _ _ _ _ _ _ _ _ _ Hg Hidle) as [(Hr0 & s' & E & Hl' & Hg')|(_ & s' & E & Hd)].
        * eexists. split; [exact E|]. right. exists a, (r0 + 1), c, j. split; [exact Hg'|].
          unfold lexdec, pend. cbn [p_sr p_rs ch_n]. rewrite ch_n_puts. cbn [ch_n]. right.
          split; [pose proof (pending_mono f_sr n1 (n1 + lenN (datas (a + 1) (N.to_nat (wlen s)))) ltac:(lia)); lia|].
          right. split; [reflexivity|]. left. lia.
        * eexists. split; [exact E|]. left. right. exact Hd.
      + (* the sender takes a datagram *)
        destruct (G_send _ _ _ _ _ _ _ _ _ _ _ Hn Hg Hidle) as (s' & burst & E & Hres).
        eexists. split; [exact E|].
        destruct Hres as [(Hne & -> & Hl' & Hg')|(-> & Hctop & -> & [(Hlast & -> & Hd)|(Hmore & -> & Hg')])].
        * rewrite chan_puts_nil. right. exists a, r0, c, j. split; [exact Hg'|].
          unfold lexdec, pend, msr, in_flight. cbn [p_sr p_rs ch_n ch_q ch_held app length]. right. split; [lia|].
          right. split; [reflexivity|]. right. split; [reflexivity|]. lia.
        * left. left. destruct (RG_top _ _ _ _ _ Hrg Hpos Hctop) as (_ & Hfin & _). destruct (Hfin Hlast) as [H1 H2].
          unfold Final. cbn [p_s p_r]. split; [exact H1|]. split; [exact H2|exact Hd].
        * right. exists c, 0, c, 0. split; [exact Hg'|].
          unfold lexdec, pend. cbn [p_sr p_rs ch_n]. rewrite ch_n_puts. cbn [ch_n]. right.
          split; [pose proof (pending_mono f_sr n1 (n1 + lenN (datas (c + 1) (N.to_nat (wlen s')))) ltac:(lia)); lia|].
          left. lia.
  Qed.

  Lemma ended_stuck : forall p fuel, ended p -> ended (run fuel p).
  Proof.
    intros p fuel. revert p. induction fuel as [|fuel IH]; intros p He; cbn [pair_run]; [exact He|].
    destruct (step p) as [p'|] eqn:E; [|exact He]. apply IH.
    assert (Hl : sender_left p).
    { unfold sender_left, s_running. destruct He as [(_ & _ & H)| H]; rewrite H; reflexivity. }
    assert (Hs : p_s p' = p_s p).
    { unfold pair_step in E. unfold sender_left in Hl. rewrite Hl in E.
      destruct (ch_q (p_sr p)) as [|d q]; destruct (r_running (p_r p)) eqn:Hr; destruct (ch_q (p_rs p)) as [|d2 q2];
        try discriminate;
        match type of E with (let '(_, _) := ?x in _) = _ => destruct x end; injection E as <-; reflexivity. }
    destruct He as [(H1 & H2 & H3)|H3]; [left|right; rewrite Hs; exact H3].
    unfold Final. rewrite Hs. split; [|split; [|exact H3]].
    all: unfold pair_step in E; unfold r_running in E; rewrite H1 in E;
      unfold sender_left in Hl; rewrite Hl in E;
      destruct (ch_q (p_sr p)); destruct (ch_q (p_rs p)); try discriminate.
  Qed.

  Lemma terminates_from : forall pf k t m p a r0 c j, nb <= 65535 -> G p a r0 c j ->
    (pend p <= pf)%nat -> nb - a <= N.of_nat k -> max_retries - r0 <= N.of_nat t -> (msr p <= m)%nat ->
    exists fuel, ended (run fuel p).
  Proof.
    intros pf. induction pf as [pf IHpf] using lt_wf_ind.
    intros k. induction k as [k IHk] using lt_wf_ind.
    intros t. induction t as [t IHt] using lt_wf_ind.
    intros m. induction m as [m IHm] using lt_wf_ind.
    intros p a r0 c j Hn Hg Hpf Hk Ht Hm.
    destruct (any_step p a r0 c j Hn Hg) as (p' & E & [He|(a' & r0' & c' & j' & Hg' & Hdec)]).
    - exists 1%nat. cbn [pair_run]. rewrite E. exact He.
    - assert (Hrec : exists fuel, ended (run fuel p')).
      { pose proof (SS_len _ _ _ (proj1 Hg')) as (Ha' & _ & _). pose proof (SS_retry _ _ _ (proj1 Hg')) as Hr'.
        destruct Hdec as [H1|(H0 & [H2|(-> & [H3|(-> & H4)])])].
        - apply (IHpf (pend p') ltac:(lia) (N.to_nat (nb - a')) (N.to_nat (max_retries - r0')) (msr p') p' a' r0' c' j'); try assumption; lia.
        - apply (IHk (N.to_nat (nb - a')) ltac:(lia) (N.to_nat (max_retries - r0')) (msr p') p' a' r0' c' j'); try assumption; lia.
        - apply (IHt (N.to_nat (max_retries - r0')) ltac:(lia) (msr p') p' a r0' c' j'); try assumption; lia.
        - apply (IHm (msr p') ltac:(lia) p' a r0 c' j'); try assumption; lia. }
      destruct Hrec as (fuel & Hfin). exists (S fuel). cbn [pair_run]. rewrite E. exact Hfin.
  Qed.
  End Pair.

  (** * The theorems *)

  Lemma nil_clean : forall lo, clean_from [] lo.
  Proof. intros lo i _. reflexivity. Qed.

  Lemma single_one_drop : forall i, one_drop [(i, NfDrop)] i.
  Proof.
    intros i. split; cbn [fault_at]; [rewrite N.eqb_refl; reflexivity|].
    intros k Hk. destruct (N.eqb_spec i k); [congruence|reflexivity].
  Qed.

  (** No interference: both sides complete, the receiver holds exactly the file. *)
  Theorem cosim_perfect : exists fuel,
    let p := pair_run sc rc [] [] fuel (pair_init sc rc [] F) in
    r_phase (p_r p) = RDone OutOk /\ written_bytes (w_file (r_w (p_r p))) = F /\ s_phase (p_s p) = SDone OutOk.
  Proof. exact (cosim_perfect_gen [] [] (nil_clean 0) (nil_clean 0)). Qed.

  (** Any one DATA datagram lost - whichever one, in whichever window, of whatever file:
      both sides complete, the receiver holds exactly the file. *)
  Theorem cosim_data_drop : forall i, exists fuel,
    let p := pair_run sc rc [(i, NfDrop)] [] fuel (pair_init sc rc [(i, NfDrop)] F) in
    r_phase (p_r p) = RDone OutOk /\ written_bytes (w_file (r_w (p_r p))) = F /\ s_phase (p_s p) = SDone OutOk.
  Proof.
    intros i. destruct (init_emit [(i, NfDrop)]) as (s0 & -> & Hss).
    apply (data_drop_from_emit [(i, NfDrop)] [] (N.to_nat nb) s0 (recv_init rc) 0 [] 0 0 i); try assumption; try lia.
    - exact recv_init_RS.
    - apply single_one_drop.
    - apply nil_clean.
  Qed.

  (** Any one ACK lost: the receiver completes holding exactly the file; the sender completes
      too, unless the lost ACK was the last datagram the receiver ever sent (RFC 1350's exception:
      the receiver does not dally, the sender gives up). *)
  Theorem cosim_ack_drop : forall i, exists fuel,
    let p := pair_run sc rc [] [(i, NfDrop)] fuel (pair_init sc rc [] F) in
    r_phase (p_r p) = RDone OutOk /\ written_bytes (w_file (r_w (p_r p))) = F /\
    (s_phase (p_s p) = SDone OutOk \/ ch_n (p_rs p) = i + 1).
  Proof.
    intros i. destruct (init_emit []) as (s0 & -> & Hss).
    destruct (ack_drop_from_emit [] [(i, NfDrop)] (N.to_nat nb) s0 (recv_init rc) 0 [] 0 0 i) as (fuel & [H1 H2] & H3);
      try assumption; try lia.
    - exact recv_init_RS.
    - apply single_one_drop.
    - apply nil_clean.
    - exists fuel. cbv zeta. split; [exact H1|]. split; [exact H2|exact H3].
  Qed.

  Lemma single_one_dup : forall i, one_dup [(i, NfDup)] i.
  Proof.
    intros i. split; cbn [fault_at]; [rewrite N.eqb_refl; reflexivity|].
    intros k Hk. destruct (N.eqb_spec i k); [congruence|reflexivity].
  Qed.

  (** Any one DATA datagram delivered twice: both sides complete, the file is exact. *)
  Theorem cosim_data_dup : forall i, exists fuel,
    let p := pair_run sc rc [(i, NfDup)] [] fuel (pair_init sc rc [(i, NfDup)] F) in
    r_phase (p_r p) = RDone OutOk /\ written_bytes (w_file (r_w (p_r p))) = F /\ s_phase (p_s p) = SDone OutOk.
  Proof.
    intros i. destruct (init_emit [(i, NfDup)]) as (s0 & -> & Hss).
    apply (data_dup_from_emit [(i, NfDup)] [] (N.to_nat nb) s0 (recv_init rc) 0 [] 0 0 i); try assumption; try lia.
    - exact recv_init_RS.
    - apply single_one_dup.
    - apply nil_clean.
  Qed.

  (** Any one ACK delivered twice: both sides complete, the file is exact. *)
  Theorem cosim_ack_dup : forall i, exists fuel,
    let p := pair_run sc rc [] [(i, NfDup)] fuel (pair_init sc rc [] F) in
    r_phase (p_r p) = RDone OutOk /\ written_bytes (w_file (r_w (p_r p))) = F /\ s_phase (p_s p) = SDone OutOk.
  Proof.
    intros i. destruct (init_emit []) as (s0 & -> & Hss).
    apply (ack_dup_from_emit [] [(i, NfDup)] (N.to_nat nb) s0 (recv_init rc) 0 [] 0 0 i); try assumption; try lia.
    - exact recv_init_RS.
    - apply single_one_dup.
    - apply nil_clean.
  Qed.

  Lemma single_one_hold : forall i, one_hold [(i, NfHold)] i.
  Proof.
    intros i. split; cbn [fault_at]; [rewrite N.eqb_refl; reflexivity|].
    intros k Hk. destruct (N.eqb_spec i k); [congruence|reflexivity].
  Qed.

  (** Any one DATA datagram overtaken by its successor (or, the last of a window, by the
      retransmission): both sides complete, the file is exact. *)
  Theorem cosim_data_hold : forall i, exists fuel,
    let p := pair_run sc rc [(i, NfHold)] [] fuel (pair_init sc rc [(i, NfHold)] F) in
    r_phase (p_r p) = RDone OutOk /\ written_bytes (w_file (r_w (p_r p))) = F /\ s_phase (p_s p) = SDone OutOk.
  Proof.
    intros i. destruct (init_emit [(i, NfHold)]) as (s0 & -> & Hss).
    apply (data_hold_from_emit [(i, NfHold)] [] (N.to_nat nb) s0 (recv_init rc) 0 [] 0 0 i); try assumption; try lia.
    - exact recv_init_RS.
    - apply single_one_hold.
    - apply nil_clean.
  Qed.

  (** Any one ACK held back until the receiver sends again: the receiver completes with the exact
      file; so does the sender, unless the held ACK was the last datagram of the transfer. *)
  Theorem cosim_ack_hold : forall i, exists fuel,
    let p := pair_run sc rc [] [(i, NfHold)] fuel (pair_init sc rc [] F) in
    r_phase (p_r p) = RDone OutOk /\ written_bytes (w_file (r_w (p_r p))) = F /\
    (s_phase (p_s p) = SDone OutOk \/ ch_n (p_rs p) = i + 1).
  Proof.
    intros i. destruct (init_emit []) as (s0 & -> & Hss).
    destruct (ack_hold_from_emit [] [(i, NfHold)] (N.to_nat nb) s0 (recv_init rc) 0 [] 0 0 i) as (fuel & [H1 H2] & H3);
      try assumption; try lia.
    - exact recv_init_RS.
    - apply single_one_hold.
    - apply nil_clean.
    - exists fuel. cbv zeta. split; [exact H1|]. split; [exact H2|exact H3].
  Qed.

  Lemma fault_at_drops : forall is k,
    (In k is -> fault_at (map (fun i => (i, NfDrop)) is) k = NfDrop) /\
    (~ In k is -> fault_at (map (fun i => (i, NfDrop)) is) k = NfDeliver).
  Proof.
    intros is k. induction is as [|i r [IH1 IH2]]; cbn [map fault_at In]; [split; [intros []|reflexivity]|].
    destruct (N.eqb_spec i k) as [->|Hne]; split; intros H; try reflexivity.
    - exfalso. apply H. left. reflexivity.
    - destruct H as [E|H]; [congruence|apply IH1; exact H].
    - apply IH2. intros Hin. apply H. right. exact Hin.
  Qed.

  (** Any number of lost DATA datagrams, as long as any two of them are more than two windows of
      datagrams apart (so that no window is hit twice, nor its retransmission): both sides complete. *)
  Theorem cosim_data_drops : forall is, spaced (2 * ws) 0 is -> exists fuel,
    let f := map (fun i => (i, NfDrop)) is in
    let p := pair_run sc rc f [] fuel (pair_init sc rc f F) in
    r_phase (p_r p) = RDone OutOk /\ written_bytes (w_file (r_w (p_r p))) = F /\ s_phase (p_s p) = SDone OutOk.
  Proof.
    intros is Hsp. cbv zeta. destruct (init_emit (map (fun i => (i, NfDrop)) is)) as (s0 & -> & Hss).
    apply (data_drops_from_emit (map (fun i => (i, NfDrop)) is) [] (N.to_nat nb) is s0 (recv_init rc) 0 [] 0 0); try assumption; try lia.
    - exact recv_init_RS.
    - intros k _. apply fault_at_drops.
    - apply nil_clean.
  Qed.

  (** Any number of lost ACKs, any two of them more than a window of datagrams apart: the receiver
      completes with exactly the file; so does the sender, unless the last datagram the receiver
      ever sent is among the lost ones (the final ACK). *)
  Theorem cosim_ack_drops : forall is, spaced ws 0 is -> exists fuel,
    let f := map (fun i => (i, NfDrop)) is in
    let p := pair_run sc rc [] f fuel (pair_init sc rc [] F) in
    r_phase (p_r p) = RDone OutOk /\ written_bytes (w_file (r_w (p_r p))) = F /\
    (s_phase (p_s p) = SDone OutOk \/ In (ch_n (p_rs p) - 1) is).
  Proof.
    intros is Hsp. cbv zeta. destruct (init_emit []) as (s0 & -> & Hss).
    pose proof (SS_len _ _ _ Hss) as (_ & _ & Hpos).
    rewrite emit_clean by (intros i Hi; reflexivity).
    destruct (ack_drops_from_sync [] (map (fun i => (i, NfDrop)) is) (N.to_nat nb) is s0 (recv_init rc) 0 [] (0 + wlen s0) 0 O)
      as (fuel & [H1 H2] & H3); try assumption; try lia.
    - exact recv_init_RS.
    - intros k _. apply fault_at_drops.
    - apply nil_clean.
    - exists fuel. split; [exact H1|]. split; [exact H2|exact H3].
  Qed.

  (** C04, every fault schedule: drops, repetitions and reorderings in any number and any
      combination on both channels, any number of steps into the run.  If from that point on
      nothing more is disturbed, neither side has ended and the sender's retry budget leaves
      room for one more time-out, then the transfer completes: both sides end in success and
      the receiver's file is the sender's file.  (The bound on the file length is that of
      [cosim_safe]: no block number is used twice.) *)
  Theorem cosim_recovers : forall f_sr f_rs fuel0, nb <= 65535 ->
    let p := pair_run sc rc f_sr f_rs fuel0 (pair_init sc rc f_sr F) in
    clean_from f_sr (ch_n (p_sr p)) -> clean_from f_rs (ch_n (p_rs p)) ->
    s_phase (p_s p) = SInWindow -> s_retry (p_s p) + 1 < max_retries -> r_phase (p_r p) = RRun ->
    exists fuel,
      let p' := pair_run sc rc f_sr f_rs fuel p in
      r_phase (p_r p') = RDone OutOk /\ written_bytes (w_file (r_w (p_r p'))) = F /\ s_phase (p_s p') = SDone OutOk.
  Proof.
    intros f_sr f_rs fuel0 Hn p Hc1 Hc2 Hs Hr Hrr.
    destruct (recovers_from_run f_sr f_rs fuel0 Hn (conj Hc1 Hc2) Hs Hr Hrr) as (fuel & Hfin).
    exists fuel. exact Hfin.
  Qed.

  (** Under every fault schedule, as long as the sender has not ended: the sender's window and the
      receiver's position differ by at most one window, and nothing else is in flight than blocks
      of the file up to the end of the sender's window and ACKs of windows the receiver completed. *)
  Theorem cosim_general_invariant : forall f_sr f_rs fuel, nb <= 65535 ->
    let p := pair_run sc rc f_sr f_rs fuel (pair_init sc rc f_sr F) in
    s_phase (p_s p) = SInWindow ->
    exists a r0 c j, G p a r0 c j.
  Proof.
    intros f_sr f_rs fuel Hn p Hs.
    destruct (G_run f_sr f_rs fuel (pair_init sc rc f_sr F) Hn (or_introl (G_init f_sr))) as [H|Hl]; [exact H|].
    fold p in Hl. unfold sender_left, s_running in Hl. rewrite Hs in Hl. discriminate.
  Qed.

  (** C04, the statement itself, for the closed system: under EVERY fault schedule - drops,
      repetitions and reorderings in any number and combination, on both channels - the run
      reaches a state in which the transfer has completed on both sides with exactly the file, or
      the sender has given up because the retry limit of consecutive failed attempts was reached.
      Nothing else can happen: no dead-lock, no live-lock, no other failure.  (When the ACK of
      the final block is among the lost datagrams the second case is RFC 1350's exception: the
      receiver holds the complete file, see [cosim_safe].) *)
  Theorem cosim_terminates : forall f_sr f_rs, nb <= 65535 ->
    exists fuel,
      let p := pair_run sc rc f_sr f_rs fuel (pair_init sc rc f_sr F) in
      (r_phase (p_r p) = RDone OutOk /\ written_bytes (w_file (r_w (p_r p))) = F /\ s_phase (p_s p) = SDone OutOk)
      \/ s_phase (p_s p) = SDone OutTimeout.
  Proof.
    intros f_sr f_rs Hn. destruct (G_init f_sr) as (a & r0 & c & j & Hg).
    destruct (terminates_from f_sr f_rs _ (N.to_nat (nb - a)) (N.to_nat (max_retries - r0)) _ _ a r0 c j Hn Hg
                (Nat.le_refl _) ltac:(lia) ltac:(lia) (Nat.le_refl _)) as (fuel & He).
    exists fuel. exact He.
  Qed.

  (** The sender gives up only through the retry limit: the step that ends it in [OutTimeout] is
      a failed receive attempt made with [max_retries - 1] failed attempts already counted. *)
  Lemma inner_top_phase : forall st st' out, s_inner_top sc st = (st', out) ->
    s_phase st' = s_phase st \/ s_phase st' = SDone OutSendFail.
  Proof.
    intros st st' out H. unfold s_inner_top in H. destruct (s_tmo sc <=? s_since st).
    - destruct (send_window _ _ _ _ _) as [[o n] ok]. destruct ok; inversion H; subst; cbn [s_phase]; auto.
    - inversion H; subst. auto.
  Qed.

  Lemma outer_top_phase : forall st st' out, s_outer_top sc st = (st', out) ->
    s_phase st' = SInWindow \/ s_phase st' = SDone OutSendFail \/ s_phase st' = SDone OutIo.
  Proof.
    intros st st' out H. unfold s_outer_top in H. destruct (s_filled st).
    - destruct (fill (s_w st)) as [[w' full]|e].
      + apply inner_top_phase in H. cbn [s_phase] in H. tauto.
      + inversion H; subst. cbn [s_done s_set_phase s_phase]. tauto.
    - apply inner_top_phase in H. cbn [s_phase] in H. tauto.
  Qed.

  Theorem give_up_only_at_limit : forall st e st' out, s_phase st = SInWindow ->
    send_step sc st e = (st', out) -> s_phase st' = SDone OutTimeout ->
    s_retry st + 1 = max_retries /\ is_failed_attempt (receive max_request_packet_size e).
  Proof.
    intros st e st' out Hp E Hd.
    assert (Hfa : is_failed_attempt (receive max_request_packet_size e) -> s_retry st + 1 = max_retries).
    { intros Hf. rewrite step_failed_attempt in E by assumption.
      destruct (N.eqb_spec (s_retry st + 1) max_retries) as [Heq|_]; [exact Heq|].
      apply inner_top_phase in E. cbn [s_phase] in E. destruct E as [E|E]; rewrite E in Hd; discriminate. }
    destruct (receive max_request_packet_size e) as [pk| |] eqn:Hr; [destruct pk as [f m os|f m os|n d|n|c m|os]| |];
      try (split; [apply Hfa; exact I|exact I]); exfalso;
      unfold send_step in E; rewrite Hp in E; cbn [s_bn s_w s_filled s_retry s_since s_nsent s_phase s_abs] in E; rewrite Hr in E.
    - destruct (_ <? _).
      + destruct (65535 <? _); [inversion E; subst; discriminate|].
        destruct (remove _ _) as [w'|err]; [|inversion E; subst; discriminate].
        destruct (_ && _); [inversion E; subst; discriminate|].
        apply outer_top_phase in E. destruct E as [E|[E|E]]; rewrite E in Hd; discriminate.
      + apply inner_top_phase in E. cbn [s_phase] in E. destruct E as [E|E]; rewrite E in Hd; discriminate.
    - inversion E; subst. discriminate.
    - inversion E; subst. discriminate.
  Qed.
End Live.

(** The single-fault statement of Props/C04.v (receiver side), for every kind of fault of the
    network model: delivered, lost, repeated, held back behind its successor. *)
Theorem single_fault_statement_holds :
  forall (blk ws : N) (F : bytes) (dir : bool) (i : N) (k : fault), 0 < blk -> 1 <= ws <= 65535 ->
  exists fuel,
    let sc := mk_scfg blk ws 1000000000 1 false [] in
    let rc := mk_rcfg blk ws 1000000000 1 true [] in
    let f1 := if dir then [(i, k)] else [] in
    let f2 := if dir then [] else [(i, k)] in
    let p := pair_run sc rc f1 f2 fuel (pair_init sc rc f1 F) in
    r_phase (p_r p) = RDone OutOk /\ recv_final_file rc (p_r p) <> None.
Proof.
  intros blk ws F dir i k Hb Hw.
  set (sc := mk_scfg blk ws 1000000000 1 false []). set (rc := mk_rcfg blk ws 1000000000 1 true []).
  assert (Hwf : wf_params (s_blk sc) (s_ws sc)) by (split; assumption).
  assert (Hdel : forall lo, clean_from [(i, NfDeliver)] lo).
  { intros lo j _. cbn [fault_at]. destruct (i =? j); reflexivity. }
  destruct k; destruct dir.
  - destruct (cosim_perfect_gen sc rc F Hwf eq_refl eq_refl eq_refl eq_refl eq_refl eq_refl eq_refl eq_refl
                [(i, NfDeliver)] [] (Hdel 0) (nil_clean 0)) as (fuel & H1 & _).
    exists fuel. cbv zeta. split; [exact H1|]. unfold recv_final_file. rewrite H1. discriminate.
  - destruct (cosim_perfect_gen sc rc F Hwf eq_refl eq_refl eq_refl eq_refl eq_refl eq_refl eq_refl eq_refl
                [] [(i, NfDeliver)] (nil_clean 0) (Hdel 0)) as (fuel & H1 & _).
    exists fuel. cbv zeta. split; [exact H1|]. unfold recv_final_file. rewrite H1. discriminate.
  - destruct (cosim_data_drop sc rc F Hwf eq_refl eq_refl eq_refl eq_refl eq_refl eq_refl eq_refl eq_refl i) as (fuel & H1 & _).
    exists fuel. cbv zeta. split; [exact H1|]. unfold recv_final_file. rewrite H1. discriminate.
  - destruct (cosim_ack_drop sc rc F Hwf eq_refl eq_refl eq_refl eq_refl eq_refl eq_refl eq_refl eq_refl i) as (fuel & H1 & _).
    exists fuel. cbv zeta. split; [exact H1|]. unfold recv_final_file. rewrite H1. discriminate.
  - destruct (cosim_data_dup sc rc F Hwf eq_refl eq_refl eq_refl eq_refl eq_refl eq_refl eq_refl eq_refl i) as (fuel & H1 & _).
    exists fuel. cbv zeta. split; [exact H1|]. unfold recv_final_file. rewrite H1. discriminate.
  - destruct (cosim_ack_dup sc rc F Hwf eq_refl eq_refl eq_refl eq_refl eq_refl eq_refl eq_refl eq_refl i) as (fuel & H1 & _).
    exists fuel. cbv zeta. split; [exact H1|]. unfold recv_final_file. rewrite H1. discriminate.
  - destruct (cosim_data_hold sc rc F Hwf eq_refl eq_refl eq_refl eq_refl eq_refl eq_refl eq_refl eq_refl i) as (fuel & H1 & _).
    exists fuel. cbv zeta. split; [exact H1|]. unfold recv_final_file. rewrite H1. discriminate.
  - destruct (cosim_ack_hold sc rc F Hwf eq_refl eq_refl eq_refl eq_refl eq_refl eq_refl eq_refl eq_refl i) as (fuel & H1 & _).
    exists fuel. cbv zeta. split; [exact H1|]. unfold recv_final_file. rewrite H1. discriminate.
Qed.

(** The general statements of Props/C04.v, for the configuration the servers and clients use
    (duplicate-packets mode off), every block size, window size, file of at most 65535 blocks and
    EVERY fault schedule on both channels. *)
Theorem any_schedule_statement_holds :
  forall (blk ws : N) (F : bytes) (f1 f2 : list (N * fault)), 0 < blk -> 1 <= ws <= 65535 -> nblk blk F <= 65535 ->
  exists fuel,
    let sc := mk_scfg blk ws 1000000000 1 false [] in
    let rc := mk_rcfg blk ws 1000000000 1 true [] in
    let p := pair_run sc rc f1 f2 fuel (pair_init sc rc f1 F) in
    (r_phase (p_r p) = RDone OutOk /\ written_bytes (w_file (r_w (p_r p))) = F /\ s_phase (p_s p) = SDone OutOk)
    \/ s_phase (p_s p) = SDone OutTimeout.
Proof.
  intros blk ws F f1 f2 Hb Hw Hn.
  set (sc := mk_scfg blk ws 1000000000 1 false []). set (rc := mk_rcfg blk ws 1000000000 1 true []).
  assert (Hwf : wf_params (s_blk sc) (s_ws sc)) by (split; assumption).
  exact (cosim_terminates sc rc F Hwf eq_refl eq_refl eq_refl eq_refl eq_refl eq_refl eq_refl eq_refl f1 f2 Hn).
Qed.

Theorem below_the_limit_statement_holds :
  forall (blk ws : N) (F : bytes) (f1 f2 : list (N * fault)), 0 < blk -> 1 <= ws <= 65535 -> nblk blk F <= 65535 ->
  let sc := mk_scfg blk ws 1000000000 1 false [] in
  let rc := mk_rcfg blk ws 1000000000 1 true [] in
  (forall fuel, s_phase (p_s (pair_run sc rc f1 f2 fuel (pair_init sc rc f1 F))) <> SDone OutTimeout) ->
  exists fuel,
    let p := pair_run sc rc f1 f2 fuel (pair_init sc rc f1 F) in
    r_phase (p_r p) = RDone OutOk /\ written_bytes (w_file (r_w (p_r p))) = F /\ s_phase (p_s p) = SDone OutOk.
Proof.
  intros blk ws F f1 f2 Hb Hw Hn sc rc Hnever.
  destruct (any_schedule_statement_holds blk ws F f1 f2 Hb Hw Hn) as (fuel & [H|H]).
  - exists fuel. exact H.
  - exfalso. exact (Hnever fuel H).
Qed.

Theorem quiet_after_faults_statement_holds :
  forall (blk ws : N) (F : bytes) (f1 f2 : list (N * fault)) (fuel0 : nat),
  0 < blk -> 1 <= ws <= 65535 -> nblk blk F <= 65535 ->
  let sc := mk_scfg blk ws 1000000000 1 false [] in
  let rc := mk_rcfg blk ws 1000000000 1 true [] in
  let p := pair_run sc rc f1 f2 fuel0 (pair_init sc rc f1 F) in
  clean_from f1 (ch_n (p_sr p)) -> clean_from f2 (ch_n (p_rs p)) ->
  s_phase (p_s p) = SInWindow -> s_retry (p_s p) + 1 < max_retries -> r_phase (p_r p) = RRun ->
  exists fuel,
    let p' := pair_run sc rc f1 f2 fuel p in
    r_phase (p_r p') = RDone OutOk /\ written_bytes (w_file (r_w (p_r p'))) = F /\ s_phase (p_s p') = SDone OutOk.
Proof.
  intros blk ws F f1 f2 fuel0 Hb Hw Hn sc rc.
  assert (Hwf : wf_params (s_blk sc) (s_ws sc)) by (split; assumption).
  exact (cosim_recovers sc rc F Hwf eq_refl eq_refl eq_refl eq_refl eq_refl eq_refl eq_refl eq_refl f1 f2 fuel0 Hn).
Qed.

Lemma clean_from_bound : forall fs n, forallb (fun e => fst e <? n) fs = true -> clean_from fs n.
Proof.
  intros fs n H i Hi. induction fs as [|[k f] fs IH]; [reflexivity|].
  cbn [forallb fst] in H. apply andb_prop in H. destruct H as [H1 H2]. cbn [fault_at].
  destruct (N.eqb_spec k i); [lia|]. apply IH. exact H2.
Qed.

(** The premises of [quiet_after_faults_statement_holds] are met by heavily disturbed runs: ten
    faults on the DATA channel (drops, a repetition, two holds), three on the ACK channel, four
    time-outs already on the sender's count. *)
Example quiet_after_faults_premises :
  let sc := mk_scfg 4 3 1000000000 1 false [] in
  let rc := mk_rcfg 4 3 1000000000 1 true [] in
  let F := map N.of_nat (seq 1 30) in
  let f1 := [(1, NfDrop); (2, NfHold); (4, NfDup); (5, NfDrop); (7, NfDrop); (8, NfDrop); (9, NfHold)] in
  let f2 := [(0, NfDrop); (1, NfDup); (2, NfHold)] in
  let p := pair_run sc rc f1 f2 15 (pair_init sc rc f1 F) in
  clean_from f1 (ch_n (p_sr p)) /\ clean_from f2 (ch_n (p_rs p)) /\
  s_phase (p_s p) = SInWindow /\ s_retry (p_s p) = 4 /\ r_phase (p_r p) = RRun /\ r_cnt (p_r p) = 3 /\
  nblk 4 F = 8.
Proof.
  cbv zeta. split; [apply clean_from_bound; vm_compute; reflexivity|].
  split; [apply clean_from_bound; vm_compute; reflexivity|]. vm_compute. repeat split; reflexivity.
Qed.
