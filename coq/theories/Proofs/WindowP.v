(** Proofs about [Window] (window.rs): the buffer contract of C18 and the lemmas the
    transfer-loop proofs need. *)
From Coq Require Import ZArith Lia ZifyBool ZifyNat ZifyN.
From Tftp Require Import Base.Prelude Model.Types Model.Consts Model.Codec Model.Window Model.Worker Model.Spec
  Proofs.ListAux Proofs.SpecP.
Local Open Scope N_scope.
Ltac Zify.zify_post_hook ::= Z.div_mod_to_equations.

Definition full_piece (chunk : N) (c : bytes) : Prop := lenN c = chunk.

(** * [read_chunks]: what the loop of [fill] reads *)

Lemma short_take_rest : forall chunk (rest : bytes), lenN (takeN chunk rest) <> chunk ->
  lenN (takeN chunk rest) < chunk /\ dropN chunk rest = [].
Proof.
  intros chunk rest H. rewrite lenN_takeN in *. split; [lia|]. apply dropN_all. lia.
Qed.

Lemma read_chunks_gen : forall n chunk rest cs rest' full,
  read_chunks n chunk rest = (cs, rest', full) ->
  concat cs ++ rest' = rest /\ (length cs <= n)%nat /\
  (full = true -> length cs = n /\ Forall (full_piece chunk) cs) /\
  (full = false -> exists init last, cs = init ++ [last] /\ Forall (full_piece chunk) init /\
                                     lenN last < chunk /\ rest' = []).
Proof.
  induction n as [|n IH]; intros chunk rest cs rest' full H; cbn [read_chunks] in H.
  - inversion H; subst. cbn [concat app length]. repeat split; try lia; try constructor; discriminate.
  - destruct (N.eqb_spec (lenN (takeN chunk rest)) chunk) as [E|E].
    + destruct (read_chunks n chunk (dropN chunk rest)) as [[cs1 r1] f1] eqn:R.
      inversion H; subst. destruct (IH _ _ _ _ _ R) as (A & B & C & D).
      cbn [concat length]. rewrite <- app_assoc, A, takeN_dropN.
      split; [reflexivity|]. split; [lia|]. split.
      * intros Hf. destruct (C Hf) as [C1 C2]. split; [lia|]. constructor; assumption.
      * intros Hf. destruct (D Hf) as (init & last & -> & D2 & D3 & D4).
        exists (takeN chunk rest :: init), last. repeat split; try assumption.
        constructor; assumption.
    + inversion H; subst. destruct (short_take_rest _ _ E) as [S1 S2].
      cbn [concat length]. rewrite app_nil_r, takeN_dropN.
      split; [reflexivity|]. split; [lia|]. split; [discriminate|].
      intros _. exists [], (takeN chunk rest). repeat split; try assumption. constructor.
Qed.

(** Relative to a file [F] and the (1-based) index [a] of the next block to read. *)
Lemma read_chunks_spec : forall n blk F a cs rest' full, 0 < blk -> 1 <= a -> a <= nblk blk F ->
  read_chunks n blk (dropN ((a - 1) * blk) F) = (cs, rest', full) ->
  cs = chunks_from blk F a (length cs) /\
  rest' = dropN ((a - 1 + lenN cs) * blk) F /\
  (length cs <= n)%nat /\
  (full = true -> length cs = n /\ a + lenN cs <= nblk blk F) /\
  (full = false -> (1 <= length cs)%nat /\ a + lenN cs = nblk blk F + 1).
Proof.
  induction n as [|n IH]; intros blk F a cs rest' full Hb Ha Hn H; cbn [read_chunks] in H.
  - inversion H; subst. cbn [chunks_from length]. rewrite lenN_nil, N.add_0_r.
    repeat split; try lia; discriminate.
  - fold (chunk blk F a) in H.
    destruct (N.eqb_spec (lenN (chunk blk F a)) blk) as [E|E].
    + assert (Hlt : a < nblk blk F).
      { destruct (N.eq_dec a (nblk blk F)) as [->|]; [|lia].
        pose proof (chunk_last_short blk F Hb). lia. }
      rewrite dropN_dropN in H.
      replace (blk + (a - 1) * blk) with ((a + 1 - 1) * blk) in H
        by (replace (a + 1 - 1) with (a - 1 + 1) by lia; rewrite N.mul_add_distr_r, N.mul_1_l; lia).
      destruct (read_chunks n blk (dropN ((a + 1 - 1) * blk) F)) as [[cs1 r1] f1] eqn:R.
      inversion H; subst.
      destruct (IH blk F (a + 1) cs1 rest' full Hb ltac:(lia) ltac:(lia) R) as (A & B & C & D & G).
      cbn [length chunks_from]. rewrite lenN_cons. repeat split.
      * f_equal. exact A.
      * rewrite B. f_equal. f_equal. lia.
      * lia.
      * destruct (D H0); lia.
      * destruct (D H0); lia.
      * lia.
      * destruct (G H0); lia.
    + inversion H; subst. cbn [length chunks_from]. rewrite lenN_cons, lenN_nil.
      assert (Hs : lenN (chunk blk F a) < blk) by (pose proof (chunk_len_le blk F a); lia).
      pose proof (chunk_short_last blk F a Hb Ha Hs).
      repeat split; try lia; try discriminate.
      rewrite dropN_dropN. f_equal.
      replace (a - 1 + (0 + 1)) with (a - 1 + 1) by lia. rewrite N.mul_add_distr_r, N.mul_1_l. lia.
Qed.

(** * The buffer invariant: never more pieces than [size] (a [u16]) *)

Definition WInv (w : window) : Prop := lenN (w_elems w) <= w_size w /\ w_size w <= 65535.

Lemma w_len_exact : forall w, WInv w -> w_len w = lenN (w_elems w).
Proof. intros w [H1 H2]. unfold w_len. apply N.mod_small. lia. Qed.

Lemma w_is_empty_iff : forall w, w_is_empty w = true <-> w_elems w = [].
Proof. intros w. unfold w_is_empty. destruct (w_elems w); split; intros; congruence. Qed.

Lemma w_is_full_iff : forall w, WInv w -> (w_is_full w = true <-> lenN (w_elems w) = w_size w).
Proof. intros w H. unfold w_is_full. rewrite w_len_exact by assumption. apply N.eqb_eq. Qed.

(** ** [remove(k)]: drops exactly the [k] oldest pieces, fails when [k] exceeds the length *)

Theorem remove_exact : forall w k, WInv w ->
  (k <= lenN (w_elems w) ->
     remove w k = WOk (mk_window (dropN k (w_elems w)) (w_size w) (w_chunk w) (w_file w))) /\
  (lenN (w_elems w) < k -> remove w k = WErr WRemove).
Proof.
  intros w k H. unfold remove. rewrite w_len_exact by assumption. split; intros Hk.
  - destruct (N.ltb_spec (lenN (w_elems w)) k); [lia|reflexivity].
  - destruct (N.ltb_spec (lenN (w_elems w)) k); [reflexivity|lia].
Qed.

(** ** [add]: fails iff the buffer is full, otherwise appends at the back *)

Theorem add_exact : forall w d, WInv w ->
  (lenN (w_elems w) = w_size w -> add w d = WErr WAdd) /\
  (lenN (w_elems w) < w_size w ->
     add w d = WOk (mk_window (w_elems w ++ [d]) (w_size w) (w_chunk w) (w_file w))).
Proof.
  intros w d H. unfold add. rewrite w_len_exact by assumption. split; intros Hk.
  - rewrite (proj2 (N.eqb_eq _ _) Hk). reflexivity.
  - destruct (N.eqb_spec (lenN (w_elems w)) (w_size w)); [lia|reflexivity].
Qed.

(** ** [empty]: appends all buffered pieces to the file in order and clears the buffer *)

Theorem empty_appends : forall w, f_mode (w_file w) <> FRead ->
  exists w', empty w = WOk w' /\ w_elems w' = [] /\
    written_bytes (w_file w') = written_bytes (w_file w) ++ concat (w_elems w) /\
    w_size w' = w_size w /\ w_chunk w' = w_chunk w /\ f_mode (w_file w') = f_mode (w_file w).
Proof.
  intros w Hm. unfold empty. destruct (w_elems w) as [|c cs] eqn:E.
  - exists w. rewrite E. cbn [concat]. rewrite app_nil_r. repeat split; reflexivity.
  - destruct (f_mode (w_file w)) eqn:M; [congruence| |];
      eexists; (split; [reflexivity|]); cbn [w_elems w_file w_size w_chunk f_mode]; unfold written_bytes;
      cbn [f_written]; rewrite rev_app_distr, rev_involutive, concat_app; repeat split; reflexivity.
Qed.

(** A write through a read-only descriptor fails and changes nothing (the buffer is kept). *)
Theorem empty_readonly_fails : forall w, f_mode (w_file w) = FRead -> all_nil (w_elems w) = false ->
  empty w = WErr WIo.
Proof.
  intros w Hm He. unfold empty. destruct (w_elems w) eqn:E; [discriminate|]. rewrite Hm, He. reflexivity.
Qed.

(** ... except that writing only empty pieces performs no write at all and succeeds. *)
Theorem empty_readonly_nothing : forall w, f_mode (w_file w) = FRead -> all_nil (w_elems w) = true ->
  exists w', empty w = WOk w' /\ w_elems w' = [] /\ w_file w' = w_file w /\ w_size w' = w_size w /\ w_chunk w' = w_chunk w.
Proof.
  intros w Hm He. unfold empty. destruct (w_elems w) eqn:E.
  - exists w. repeat split; auto.
  - rewrite Hm, He. eexists. repeat split.
Qed.

(** ** [fill]: tops the buffer up with consecutive chunk-size pieces of the file *)

Theorem fill_spec : forall w, WInv w -> f_mode (w_file w) <> FWrite ->
  exists cs full w', fill w = WOk (w', full) /\
    w_elems w' = w_elems w ++ cs /\
    concat cs ++ f_rest (w_file w') = f_rest (w_file w) /\
    f_written (w_file w') = f_written (w_file w) /\ f_mode (w_file w') = f_mode (w_file w) /\
    w_size w' = w_size w /\ w_chunk w' = w_chunk w /\
    lenN (w_elems w') <= w_size w /\
    (full = true -> lenN (w_elems w') = w_size w /\ Forall (full_piece (w_chunk w)) cs) /\
    (full = false -> exists init last, cs = init ++ [last] /\ Forall (full_piece (w_chunk w)) init /\
                                       lenN last < w_chunk w /\ f_rest (w_file w') = []).
Proof.
  intros w Hw Hm. unfold fill. rewrite w_len_exact by assumption. destruct Hw as [H1 H2].
  destruct (read_chunks (N.to_nat (w_size w - lenN (w_elems w))) (w_chunk w) (f_rest (w_file w)))
    as [[cs rest'] full] eqn:R.
  destruct (read_chunks_gen _ _ _ _ _ _ R) as (A & B & C & D).
  assert (G : forall X, match f_mode (w_file w) with
              | FWrite => match N.to_nat (w_size w - lenN (w_elems w)) with O => WOk (w, true) | S _ => WErr WIo end
              | _ => X end = X) by (intros X; destruct (f_mode (w_file w)); congruence).
  rewrite G. exists cs, full. eexists. split; [reflexivity|].
  cbn [w_elems w_file w_size w_chunk f_rest f_written f_mode]. rewrite lenN_app.
  assert (Hl : lenN cs <= w_size w - lenN (w_elems w)) by (unfold lenN in *; lia).
  split; [reflexivity|]. split; [exact A|]. split; [reflexivity|]. split; [reflexivity|].
  split; [reflexivity|]. split; [reflexivity|]. split; [lia|]. split; [|exact D].
  intros Hf. destruct (C Hf) as [C1 C2]. split; [unfold lenN in *; lia|exact C2].
Qed.

(** On a write-only descriptor (a created file) [fill] fails as soon as it has to read. *)
Theorem fill_writeonly : forall w, WInv w -> f_mode (w_file w) = FWrite ->
  fill w = if lenN (w_elems w) =? w_size w then WOk (w, true) else WErr WIo.
Proof.
  intros w Hw Hm. unfold fill. rewrite w_len_exact by assumption. rewrite Hm. destruct Hw as [H1 H2].
  destruct (N.eqb_spec (lenN (w_elems w)) (w_size w)) as [E|E].
  - rewrite E, N.sub_diag. reflexivity.
  - destruct (N.to_nat (w_size w - lenN (w_elems w))) eqn:Z; [lia|reflexivity].
Qed.

(** * The operation machine: every reachable state is bounded (C18) *)

Lemma wstep_inv : forall w o, WInv w -> WInv (fst (wstep w o)).
Proof.
  intros w o Hw. destruct o as [| |k|d]; cbn [wstep].
  - destruct (f_mode (w_file w)) eqn:M.
    + destruct (fill_spec w Hw ltac:(congruence)) as (cs & full & w' & -> & A & _ & _ & _ & S & _ & L & _).
      cbn [fst]. destruct Hw. split; lia.
    + rewrite fill_writeonly by assumption. destruct (_ =? _); exact Hw.
    + destruct (fill_spec w Hw ltac:(congruence)) as (cs & full & w' & -> & A & _ & _ & _ & S & _ & L & _).
      cbn [fst]. destruct Hw. split; lia.
  - destruct (w_elems w) as [|c cs] eqn:E.
    + assert (X : empty w = WOk w) by (unfold empty; rewrite E; reflexivity). rewrite X. exact Hw.
    + destruct (f_mode (w_file w)) eqn:M.
      * destruct (all_nil (w_elems w)) eqn:An.
        -- destruct (empty_readonly_nothing w M An) as (w' & -> & A & _ & B & _). cbn [fst].
           destruct Hw; split; [rewrite A, lenN_nil; lia | lia].
        -- rewrite empty_readonly_fails by assumption. exact Hw.
      * destruct (empty_appends w ltac:(congruence)) as (w' & -> & A & _ & B & _). cbn [fst].
        destruct Hw; split; [rewrite A, lenN_nil; lia | lia].
      * destruct (empty_appends w ltac:(congruence)) as (w' & -> & A & _ & B & _). cbn [fst].
        destruct Hw; split; [rewrite A, lenN_nil; lia | lia].
  - unfold remove. destruct (_ <? _); cbn [fst]; [exact Hw|].
    destruct Hw. split; cbn [w_elems w_size]; [rewrite lenN_dropN; lia|assumption].
  - destruct (N.eq_dec (lenN (w_elems w)) (w_size w)) as [E|E].
    + rewrite (proj1 (add_exact w d Hw) E). exact Hw.
    + destruct Hw as [H1 H2]. rewrite (proj2 (add_exact w d (conj H1 H2))) by lia. cbn [fst].
      split; cbn [w_elems w_size]; [rewrite lenN_app, lenN_cons, lenN_nil; lia|assumption].
Qed.

Theorem wrun_bounded : forall ops w, WInv w -> WInv (fst (wrun w ops)).
Proof.
  induction ops as [|o ops IH]; intros w Hw; cbn [wrun]; [exact Hw|].
  destruct (wstep w o) as [w1 ob] eqn:S1. destruct (wrun w1 ops) as [w2 obs] eqn:R. cbn [fst].
  replace w2 with (fst (wrun w1 ops)) by (rewrite R; reflexivity). apply IH.
  replace w1 with (fst (wstep w o)) by (rewrite S1; reflexivity). apply wstep_inv. exact Hw.
Qed.

Theorem window_new_inv : forall size chunk f, size <= 65535 -> WInv (window_new size chunk f).
Proof. intros. split; cbn [window_new w_elems w_size]; [rewrite lenN_nil; lia|assumption]. Qed.

(** * Successive fills hand out the file in order (C18) *)

(** The pieces appended by the fills of a run, in order (ghost instrumentation of [wrun]). *)
Fixpoint fill_pieces (w : window) (ops : list wop) : list bytes :=
  match ops with
  | [] => []
  | o :: r =>
    let w1 := fst (wstep w o) in
    match o with
    | OpFill => skipn (length (w_elems w)) (w_elems w1) ++ fill_pieces w1 r
    | _ => fill_pieces w1 r
    end
  end.

Lemma wstep_keeps_read_file : forall w o, f_mode (w_file w) = FRead ->
  match o with OpFill => True | _ => w_file (fst (wstep w o)) = w_file w end /\
  f_mode (w_file (fst (wstep w o))) = FRead /\
  w_chunk (fst (wstep w o)) = w_chunk w.
Proof.
  intros w o Hm. destruct o as [| |k|d]; cbn [wstep].
  - unfold fill. rewrite Hm.
    destruct (read_chunks _ _ _) as [[cs r] f]. cbn [fst w_file f_mode w_chunk]. auto.
  - unfold empty. destruct (w_elems w); [auto|]. rewrite Hm. destruct (all_nil _); cbn [fst w_file w_chunk]; auto.
  - unfold remove. destruct (_ <? _); cbn [fst w_file w_chunk]; auto.
  - unfold add. destruct (_ =? _); cbn [fst w_file w_chunk]; auto.
Qed.

(** Whatever operations are interleaved, on a file opened for reading the pieces that the
    fills append are, concatenated, exactly the bytes consumed from the file: no gap, no
    repetition, in order. *)
Theorem fills_hand_out_file_in_order : forall ops w, WInv w -> f_mode (w_file w) = FRead ->
  concat (fill_pieces w ops) ++ f_rest (w_file (fst (wrun w ops))) = f_rest (w_file w).
Proof.
  induction ops as [|o ops IH]; intros w Hw Hm; cbn [wrun fill_pieces]; [reflexivity|].
  destruct (wstep w o) as [w1 ob] eqn:S1. destruct (wrun w1 ops) as [w2 obs] eqn:R. cbn [fst].
  assert (E1 : w1 = fst (wstep w o)) by (rewrite S1; reflexivity).
  assert (E2 : w2 = fst (wrun w1 ops)) by (rewrite R; reflexivity).
  assert (Hw1 : WInv w1) by (rewrite E1; apply wstep_inv; exact Hw).
  destruct (wstep_keeps_read_file w o Hm) as (K1 & K2 & _). rewrite <- E1 in K1, K2.
  specialize (IH w1 Hw1 K2). rewrite <- E2 in IH.
  destruct o as [| |k|d]; try (rewrite <- K1; exact IH).
  cbn [wstep] in S1.
  destruct (fill_spec w Hw ltac:(congruence)) as (cs & full & w' & F1 & A & B & _).
  rewrite F1 in S1. inversion S1; subst w' ob.
  rewrite A, skipn_app_exact by reflexivity. rewrite concat_app, <- app_assoc, IH. exact B.
Qed.

(** Every piece before the first short one has exactly [chunk] bytes; the fill that appends
    a short piece reports [false] and leaves nothing unread; all other fills report [true]. *)
Theorem fill_short_piece_is_last : forall w, WInv w -> f_mode (w_file w) = FRead ->
  forall w' full, fill w = WOk (w', full) ->
  let pieces := skipn (length (w_elems w)) (w_elems w') in
  (full = true -> Forall (full_piece (w_chunk w)) pieces) /\
  (full = false -> f_rest (w_file w') = [] /\
     exists init last, pieces = init ++ [last] /\ Forall (full_piece (w_chunk w)) init /\ lenN last < w_chunk w).
Proof.
  intros w Hw Hm w' full Hf pieces.
  destruct (fill_spec w Hw ltac:(congruence)) as (cs & full' & w'' & F1 & A & B & _ & _ & _ & _ & _ & C & D).
  rewrite F1 in Hf. inversion Hf; subst w'' full'. subst pieces.
  rewrite A, skipn_app_exact by reflexivity. split.
  - intros H. exact (proj2 (C H)).
  - intros H. destruct (D H) as (init & last & -> & D2 & D3 & D4). split; [exact D4|].
    exists init, last. repeat split; assumption.
Qed.

(** Once the file is exhausted ([f_rest = []]) a further fill can only append empty pieces. *)
Theorem fill_after_eof_is_empty : forall w, WInv w -> f_mode (w_file w) = FRead -> 0 < w_chunk w ->
  f_rest (w_file w) = [] ->
  forall w' full, fill w = WOk (w', full) ->
  Forall (fun c => c = []) (skipn (length (w_elems w)) (w_elems w')).
Proof.
  intros w Hw Hm Hc Hr w' full Hf.
  destruct (fill_spec w Hw ltac:(congruence)) as (cs & full' & w'' & F1 & A & B & _).
  rewrite F1 in Hf. inversion Hf; subst w'' full'. rewrite A, skipn_app_exact by reflexivity.
  rewrite Hr in B. apply app_eq_nil in B. destruct B as [B _].
  clear -B. induction cs as [|c cs IH]; [constructor|].
  cbn [concat] in B. apply app_eq_nil in B. destruct B. constructor; auto.
Qed.

(** * The receiving side: whatever is added is stored once, in order (C18) *)

(** The pieces accepted by the [add]s of a run, in order (ghost instrumentation of [wrun]). *)
Fixpoint add_pieces (w : window) (ops : list wop) : list bytes :=
  match ops with
  | [] => []
  | o :: r =>
    let w1 := fst (wstep w o) in
    match o with
    | OpAdd d => match add w d with WOk _ => d :: add_pieces w1 r | WErr _ => add_pieces w1 r end
    | _ => add_pieces w1 r
    end
  end.

Definition no_remove (ops : list wop) : Prop := Forall (fun o => match o with OpRemove _ => False | _ => True end) ops.

(** What the window holds for its file: the bytes written so far followed by the buffered pieces. *)
Definition stored_then_buffered (w : window) : bytes := written_bytes (w_file w) ++ concat (w_elems w).

Lemma wstep_write_side : forall w o, WInv w -> f_mode (w_file w) = FWrite ->
  match o with OpRemove _ => False | _ => True end ->
  f_mode (w_file (fst (wstep w o))) = FWrite /\
  stored_then_buffered (fst (wstep w o)) =
    stored_then_buffered w ++
    match o with OpAdd d => match add w d with WOk _ => d | WErr _ => [] end | _ => [] end.
Proof.
  intros w o Hw Hm Ho. destruct o as [| |k|d]; cbn [wstep]; [| |contradiction|].
  - rewrite fill_writeonly by assumption. destruct (_ =? _); cbn [fst]; rewrite app_nil_r; auto.
  - destruct (empty_appends w ltac:(congruence)) as (w' & -> & A & B & _ & _ & M). cbn [fst].
    split; [congruence|]. unfold stored_then_buffered. rewrite A, B. cbn [concat]. rewrite !app_nil_r. reflexivity.
  - destruct (N.eq_dec (lenN (w_elems w)) (w_size w)) as [E|E].
    + rewrite (proj1 (add_exact w d Hw) E). cbn [fst]. rewrite app_nil_r. auto.
    + destruct Hw as [H1 H2]. rewrite (proj2 (add_exact w d (conj H1 H2))) by lia. cbn [fst].
      split; [exact Hm|]. unfold stored_then_buffered. cbn [w_file w_elems].
      rewrite concat_app. cbn [concat]. rewrite app_nil_r, app_assoc. reflexivity.
Qed.

(** For every sequence of [add] / [empty] / [fill] calls on a created file: the bytes written
    followed by the pieces still buffered are exactly what was there before followed by the
    accepted pieces in the order of their [add]s - nothing lost, nothing twice, nothing else. *)
Theorem adds_are_stored_in_order : forall ops w, WInv w -> f_mode (w_file w) = FWrite -> no_remove ops ->
  stored_then_buffered (fst (wrun w ops)) = stored_then_buffered w ++ concat (add_pieces w ops).
Proof.
  induction ops as [|o ops IH]; intros w Hw Hm Hn; cbn [wrun add_pieces]; [cbn [fst concat]; rewrite app_nil_r; reflexivity|].
  inversion Hn as [|o' ops' Ho Hn']; subst o' ops'.
  destruct (wstep w o) as [w1 ob] eqn:S1. destruct (wrun w1 ops) as [w2 obs] eqn:R. cbn [fst].
  assert (E1 : w1 = fst (wstep w o)) by (rewrite S1; reflexivity).
  assert (E2 : w2 = fst (wrun w1 ops)) by (rewrite R; reflexivity).
  assert (Hw1 : WInv w1) by (rewrite E1; apply wstep_inv; exact Hw).
  destruct (wstep_write_side w o Hw Hm Ho) as (K1 & K2). rewrite <- E1 in K1, K2.
  specialize (IH w1 Hw1 K1 Hn'). rewrite <- E2 in IH. rewrite IH, K2.
  destruct o as [| |k|d]; try (rewrite app_nil_r; reflexivity).
  destruct (add w d); [cbn [concat]; rewrite app_assoc; reflexivity | rewrite app_nil_r; reflexivity].
Qed.

(** Consequence for a run that ends with a successful [empty]: the file holds exactly the accepted pieces. *)
Corollary adds_then_empty_file : forall ops size chunk, size <= 65535 -> no_remove ops ->
  let w := fst (wrun (window_new size chunk file_created) (ops ++ [OpEmpty])) in
  w_elems w = [] /\ written_bytes (w_file w) = concat (add_pieces (window_new size chunk file_created) (ops ++ [OpEmpty])).
Proof.
  intros ops size chunk Hs Hn w.
  assert (Hw0 : WInv (window_new size chunk file_created)) by (apply window_new_inv; exact Hs).
  assert (Hn' : no_remove (ops ++ [OpEmpty])) by (apply Forall_app; split; [exact Hn | repeat constructor]).
  pose proof (adds_are_stored_in_order (ops ++ [OpEmpty]) _ Hw0 eq_refl Hn') as H. fold w in H.
  assert (E : w_elems w = []).
  { subst w. clear H Hn'. assert (Hm0 : f_mode (w_file (window_new size chunk file_created)) = FWrite) by reflexivity.
    generalize dependent (window_new size chunk file_created).
    induction ops as [|o ops IH]; intros w0 Hw0 Hm0.
    - cbn [app wrun wstep].
      destruct (empty_appends w0 ltac:(congruence)) as (w' & -> & A & _). exact A.
    - inversion Hn as [|o' ops' Ho Hn']; subst o' ops'.
      cbn [app wrun]. destruct (wstep w0 o) as [w1 ob] eqn:S1.
      destruct (wrun w1 (ops ++ [OpEmpty])) as [w2 obs] eqn:R. cbn [fst].
      replace w2 with (fst (wrun w1 (ops ++ [OpEmpty]))) by (rewrite R; reflexivity).
      assert (E1 : w1 = fst (wstep w0 o)) by (rewrite S1; reflexivity).
      apply IH; [exact Hn' | rewrite E1; apply wstep_inv; exact Hw0 |
                 rewrite E1; apply (wstep_write_side w0 o Hw0 Hm0 Ho)]. }
  split; [exact E|]. unfold stored_then_buffered in H. rewrite E in H. cbn [concat window_new w_file w_elems file_created] in H.
  unfold written_bytes at 2 in H. cbn [f_written rev concat app] in H. rewrite app_nil_r in H. exact H.
Qed.

(** * The sender's slide: [remove k] then [fill] (C18) *)

(** Acknowledging [k] pieces and refilling keeps the unacknowledged pieces at the front, in order,
    and appends the next bytes of the file behind them; the buffer stays within its size. *)
Theorem remove_then_fill_slides : forall w k, WInv w -> f_mode (w_file w) = FRead -> k <= lenN (w_elems w) ->
  exists cs full w', wrun w [OpRemove k; OpFill] = (w', [ObsUnit; ObsFill full]) /\
    w_elems w' = dropN k (w_elems w) ++ cs /\
    concat cs ++ f_rest (w_file w') = f_rest (w_file w) /\
    lenN (w_elems w') <= w_size w /\
    (full = true -> lenN (w_elems w') = w_size w) /\
    (full = false -> f_rest (w_file w') = []).
Proof.
  intros w k Hw Hm Hk. cbn [wrun wstep].
  rewrite (proj1 (remove_exact w k Hw) Hk).
  set (w1 := mk_window (dropN k (w_elems w)) (w_size w) (w_chunk w) (w_file w)).
  assert (Hw1 : WInv w1).
  { destruct Hw as [H1 H2]. split; cbn [w1 w_elems w_size]; [rewrite lenN_dropN; lia|exact H2]. }
  assert (Hm1 : f_mode (w_file w1) <> FWrite) by (cbn [w1 w_file]; congruence).
  destruct (fill_spec w1 Hw1 Hm1) as (cs & full & w' & F1 & A & B & _ & _ & _ & _ & L & Ft & Ff).
  rewrite F1. exists cs, full, w'. split; [reflexivity|]. cbn [w1 w_elems w_file w_size] in A, B, L, Ft.
  split; [exact A|]. split; [exact B|]. split; [exact L|]. split.
  - intros E. apply Ft. exact E.
  - intros E. destruct (Ff E) as (i & l & _ & _ & _ & R). exact R.
Qed.
