(** Closed system: a sending worker and a receiving worker joined by two FIFO channels on which
    a fault schedule acts (drop, duplicate, hold-and-swap).  Both workers are deterministic
    functions of the sequence of receive results they get, and each channel has one writer, so
    the history is independent of thread scheduling (a Kahn network); time-outs are delivered
    only at quiescence (both blocked in [recv], both channels empty): first to the sender, and
    to the receiver once the sender has ended. *)
From Tftp Require Import Base.Prelude Model.Types Model.Consts Model.Codec Model.Window Model.Worker.
Local Open Scope N_scope.

Inductive fault := NfDeliver | NfDrop | NfDup | NfHold.

(** One channel: the queue, a held datagram, the number of datagrams sent into it so far. *)
Record chan := mk_chan { ch_q : list bytes; ch_held : option bytes; ch_n : N }.
Definition chan_empty : chan := mk_chan [] None 0.

(** The fault of the [i]-th datagram (0-based) of a direction: a list of (index, fault). *)
Fixpoint fault_at (fs : list (N * fault)) (i : N) : fault :=
  match fs with
  | [] => NfDeliver
  | (j, f) :: r => if j =? i then f else fault_at r i
  end.

Definition chan_put (fs : list (N * fault)) (c : chan) (d : bytes) : chan :=
  let i := ch_n c in
  let flush q := match ch_held c with Some h => q ++ [h] | None => q end in
  match fault_at fs i with
  | NfDeliver => mk_chan (flush (ch_q c ++ [d])) None (i + 1)
  | NfDrop => mk_chan (flush (ch_q c)) None (i + 1)
  | NfDup => mk_chan (flush (ch_q c ++ [d; d])) None (i + 1)
  | NfHold => match ch_held c with
             | Some h => mk_chan (ch_q c ++ [h]) (Some d) (i + 1)   (* an earlier held one goes first *)
             | None => mk_chan (ch_q c) (Some d) (i + 1)
             end
  end.

Definition chan_puts (fs : list (N * fault)) (c : chan) (ds : list bytes) : chan := fold_left (chan_put fs) ds c.

Record pair_state := mk_pair {
  p_s : sstate; p_r : rstate; p_sr : chan (* sender -> receiver *); p_rs : chan (* receiver -> sender *) }.

Definition s_running (st : sstate) : bool := match s_phase st with SDone _ => false | _ => true end.
Definition r_running (st : rstate) : bool := match r_phase st with RDone _ => false | RRun => true end.

Definition sent_bytes (l : list sent) : list bytes := map (fun s => encode (s_pk s)) (filter (fun s => negb (s_failed s)) l).
Definition acked_bytes (l : list acked) : list bytes := sent_bytes (map a_sent l).

Section Cosim.
  Variables (scfg : scfg) (rcfg : rcfg) (f_sr f_rs : list (N * fault)).

  (** One scheduling step; [None] when nothing can happen any more. *)
  Definition pair_step (p : pair_state) : option pair_state :=
    match ch_q (p_sr p), r_running (p_r p) with
    | d :: q, true =>
      let '(r', out) := recv_step rcfg (p_r p) (EvDgram 0 d) in
      Some (mk_pair (p_s p) r' (mk_chan q (ch_held (p_sr p)) (ch_n (p_sr p))) (chan_puts f_rs (p_rs p) (acked_bytes out)))
    | _, _ =>
      match ch_q (p_rs p), s_running (p_s p) with
      | d :: q, true =>
        let '(s', out) := send_step scfg (p_s p) (EvDgram 0 d) in
        Some (mk_pair s' (p_r p) (chan_puts f_sr (p_sr p) (sent_bytes out)) (mk_chan q (ch_held (p_rs p)) (ch_n (p_rs p))))
      | _, _ =>
        if s_running (p_s p) then
          let '(s', out) := send_step scfg (p_s p) (EvFail (s_tmo scfg)) in
          Some (mk_pair s' (p_r p) (chan_puts f_sr (p_sr p) (sent_bytes out)) (p_rs p))
        else if r_running (p_r p) then
          let '(r', out) := recv_step rcfg (p_r p) (EvFail (r_tmo rcfg)) in
          Some (mk_pair (p_s p) r' (p_sr p) (chan_puts f_rs (p_rs p) (acked_bytes out)))
        else None
      end
    end.

  Fixpoint pair_run (fuel : nat) (p : pair_state) : pair_state :=
    match fuel with
    | O => p
    | S f => match pair_step p with Some p' => pair_run f p' | None => p end
    end.

  Definition pair_init (F : bytes) : pair_state :=
    let '(s0, out0) := send_init scfg F in
    mk_pair s0 (recv_init rcfg) (chan_puts f_sr chan_empty (sent_bytes out0)) chan_empty.

  (** The co-simulation: both outcomes and the file the receiver leaves. *)
  Definition cosim (fuel : nat) (F : bytes) : sphase * rphase * option bytes :=
    let p := pair_run fuel (pair_init F) in
    (s_phase (p_s p), r_phase (p_r p),
     match recv_final_file rcfg (p_r p) with Some w => Some (concat (rev w)) | None => None end).
End Cosim.

(** * Receive capacity

    The receiver's socket buffer is finite and the sender does not wait for it: of every burst
    the sender hands to the network between two of its receives only the first [cap] datagrams
    reach the channel.  (No other faults; the channels are otherwise perfect.) *)
Section CosimCap.
  Variables (scfg : scfg) (rcfg : rcfg) (cap : nat).

  Definition pair_step_cap (p : pair_state) : option pair_state :=
    match ch_q (p_sr p), r_running (p_r p) with
    | d :: q, true =>
      let '(r', out) := recv_step rcfg (p_r p) (EvDgram 0 d) in
      Some (mk_pair (p_s p) r' (mk_chan q (ch_held (p_sr p)) (ch_n (p_sr p))) (chan_puts [] (p_rs p) (acked_bytes out)))
    | _, _ =>
      match ch_q (p_rs p), s_running (p_s p) with
      | d :: q, true =>
        let '(s', out) := send_step scfg (p_s p) (EvDgram 0 d) in
        Some (mk_pair s' (p_r p) (chan_puts [] (p_sr p) (firstn cap (sent_bytes out))) (mk_chan q (ch_held (p_rs p)) (ch_n (p_rs p))))
      | _, _ =>
        if s_running (p_s p) then
          let '(s', out) := send_step scfg (p_s p) (EvFail (s_tmo scfg)) in
          Some (mk_pair s' (p_r p) (chan_puts [] (p_sr p) (firstn cap (sent_bytes out))) (p_rs p))
        else if r_running (p_r p) then
          let '(r', out) := recv_step rcfg (p_r p) (EvFail (r_tmo rcfg)) in
          Some (mk_pair (p_s p) r' (p_sr p) (chan_puts [] (p_rs p) (acked_bytes out)))
        else None
      end
    end.

  Fixpoint pair_run_cap (fuel : nat) (p : pair_state) : pair_state :=
    match fuel with
    | O => p
    | S f => match pair_step_cap p with Some p' => pair_run_cap f p' | None => p end
    end.

  Definition pair_init_cap (F : bytes) : pair_state :=
    let '(s0, out0) := send_init scfg F in
    mk_pair s0 (recv_init rcfg) (chan_puts [] chan_empty (firstn cap (sent_bytes out0))) chan_empty.
End CosimCap.
