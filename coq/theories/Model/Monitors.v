(** Decidable trace monitors, one per property, written from the property text
    (literal RFC numbers, no reference to the model's control flow).  They are
    extracted and evaluated on the traces of the *implementation*. *)
From Tftp Require Import Base.Prelude Base.Utf8 Base.Decimal Model.Types Model.Rfc.
Local Open Scope N_scope.

(** * C10: decoder totality *)

(** What one call of the implementation's decoder did. [stable]: re-encoding the
    result and decoding again gave the same packet. *)
Inductive dec_obs := DPanicked | DRejected | DAccepted (p : packet) (stable : bool).

Fixpoint count_nul (l : bytes) : nat :=
  match l with [] => O | b :: r => if N.eqb b 0 then S (count_nul r) else count_nul r end.

(** The datagram does not end in a NUL: whatever field comes last is not terminated. *)
Definition unterminated (l : bytes) : bool := negb (N.eqb (last l 1) 0).

(** Datagrams the property says must be rejected. *)
Definition must_reject (buf : bytes) : bool :=
  match buf with
  | a :: b :: rest =>
    let op := a * 256 + b in
    if (op <? 1) || (6 <? op) then true                       (* unknown opcode *)
    else if (op =? 3) || (op =? 4) then (length rest <? 2)%nat (* DATA / ACK shorter than the header *)
    else if op =? 5 then
      match rest with
      | c :: d :: _ => 7 <? c * 256 + d                      (* unknown error code *)
      | _ => true
      end
    else if (op =? 1) || (op =? 2) then
      (count_nul rest <? 2)%nat                               (* file name or mode unterminated *)
      || unterminated rest                                    (* the last option name or value unterminated *)
    else match rest with
         | [] => false
         | _ => unterminated rest                             (* OACK: the last option name or value unterminated *)
         end
  | _ => true                                                 (* shorter than the opcode *)
  end.

Definition okC10 (buf : bytes) (o : dec_obs) : bool :=
  match o with
  | DPanicked => false
  | DRejected => true
  | DAccepted _ stable => stable && negb (must_reject buf)
  end.

(** * C11: layout and round trip *)

Definition str_ok (s : bytes) : bool := utf8_valid s && nonulb s.

Definition packet_ok (p : packet) : bool :=
  match p with
  | Rrq f m _ | Wrq f m _ => str_ok f && str_ok m
  | Error _ m => str_ok m
  | _ => true
  end.

(** [wire]: what the implementation's encoder produced for [p]; [rt]: whether its
    decoder gave [p] back. *)
Definition okC11_enc (p : packet) (wire : bytes) (rt : bool) : bool :=
  bytes_eqb wire (rfc_layout p) && (rt || negb (packet_ok p)).

(** 16-bit conversions: [v] accepted iff in [lo..hi], and converting back gives the big-endian bytes of [v]. *)
Definition okC11_conv (lo hi v : N) (res : option bytes) : bool :=
  match res with
  | Some b => (lo <=? v) && (v <=? hi) && bytes_eqb b [v / 256; v mod 256]
  | None => negb ((lo <=? v) && (v <=? hi))
  end.

(** * Traces of a worker, as the scripted socket records them *)

(** [TSend raw failed snap]: one call of [Socket::send] with the datagram, whether
    the call was made to fail, and (receiver only) the length and a
    fingerprint of the file at that moment.  [TRecv]: one call of [Socket::recv]. *)
Inductive titem :=
| TSend (raw : bytes) (failed : bool) (snap : option (N * N))
| TRecv.

(** How the worker ended, as the harness classified it. *)
Inductive tend := EndOk | EndTimeout | EndPeer | EndSendFail | EndOther | EndRunaway.

(** One scripted receive result, as the monitors need it: the datagram cut to the
    socket buffer ([None] = the receive failed), and its virtual delay. *)
Record mev := mk_mev { m_delay : N; m_raw : option bytes }.

Definition retry_budget : N := 6.

(** Literal RFC 1350 readers (independent of the codec model). *)
Definition as_data (raw : bytes) : option (N * bytes) :=
  match raw with
  | 0 :: 3 :: hi :: lo :: payload => Some (hi * 256 + lo, payload)
  | _ => None
  end.

Definition as_ack (raw : bytes) : option N :=
  match raw with
  | 0 :: 4 :: hi :: lo :: _ => Some (hi * 256 + lo)
  | _ => None
  end.

Definition is_error (raw : bytes) : bool :=
  match raw with
  | 0 :: 5 :: c1 :: c2 :: _ => c1 * 256 + c2 <=? 7
  | _ => false
  end.

(** The file as a function of the byte index, so that a chunk costs O(blksize)
    wherever it lies. *)
Fixpoint range_map (f : N -> N) (start : N) (n : nat) : bytes :=
  match n with
  | O => []
  | S n' => f start :: range_map f (start + 1) n'
  end.

Definition chunk_at (fbyte : N -> N) (size blk k : N) : bytes :=
  let lo := N.min ((k - 1) * blk) size in
  let hi := N.min (k * blk) size in
  range_map fbyte lo (N.to_nat (hi - lo)).

Definition nblocks (size blk : N) : N := size / blk + 1.

(** The unique number congruent to [n] modulo 65536 in [lo, lo + 65535]. *)
Definition lift16 (lo n : N) : N :=
  let base := lo - lo mod 65536 + n mod 65536 in
  if base <? lo then base + 65536 else base.

(** Split a trace into the burst before the first receive and one burst per receive. *)
Fixpoint bursts_aux (cur : list (bytes * bool * option (N * N))) (t : list titem)
  : list (list (bytes * bool * option (N * N))) :=
  match t with
  | [] => [rev_append cur []]
  | TSend raw f s :: r => bursts_aux ((raw, f, s) :: cur) r
  | TRecv :: r => rev_append cur [] :: bursts_aux [] r
  end.
Definition bursts (t : list titem) := bursts_aux [] t.

(** Pad the script with the silence the scripted socket produces after its end. *)
Fixpoint pad_events (evs : list mev) (tmo : N) (n : nat) : list mev :=
  match n with
  | O => []
  | S n' => match evs with
            | e :: r => e :: pad_events r tmo n'
            | [] => mk_mev tmo None :: pad_events [] tmo n'
            end
  end.

(** * C01 + C07 (sender) + C08 (sender) + C16 (sender): one pass over a send trace *)

Record smon := mk_smon {
  m_hi : N;       (* highest block (unbounded index) emitted so far *)
  m_acked : N;    (* highest block acknowledged by an ACK for an outstanding block *)
  m_elapsed : N;  (* virtual time since the last transmission *)
  m_fails : N;    (* consecutive failed receives *)
  m_client : N;   (* reference client: next block it expects (0 = it completed) *)
  m_handshake : bool (* still waiting for the reply to the OACK *)
}.

Record sverdict := mk_sverdict5 {
  v_c01 : bool; v_c07 : bool; v_c08 : bool; v_c16 : bool;
  v_c04 : bool (* loss tolerance, sender side: no success before the final block is acknowledged, no giving up inside the retry budget *) }.
Definition mk_sverdict (a b c d : bool) : sverdict := mk_sverdict5 a b c d true.

Definition vand (a b : sverdict) : sverdict :=
  mk_sverdict5 (v_c01 a && v_c01 b) (v_c07 a && v_c07 b) (v_c08 a && v_c08 b) (v_c16 a && v_c16 b) (v_c04 a && v_c04 b).
Definition vtrue := mk_sverdict true true true true.

Section SendMonitor.
  Variables (blk ws tmo rep size : N) (fbyte : N -> N).

  Definition nb := nblocks size blk.

  (** Strip the [rep] copies of each emission: returns the emissions, or [None] when
      the burst is not a concatenation of runs of exactly [rep] identical datagrams
      (a run cut short by a failed first copy is allowed at the very end). *)
  Fixpoint take_copies (raw : bytes) (n : nat) (l : list (bytes * bool * option (N * N)))
    : option (list (bytes * bool * option (N * N))) :=
    match n with
    | O => Some l
    | S n' => match l with
              | (r, _, _) :: l' => if bytes_eqb r raw then take_copies raw n' l' else None
              | [] => None
              end
    end.

  Fixpoint emissions (fuel : nat) (l : list (bytes * bool * option (N * N))) : option (list bytes) :=
    match fuel with
    | O => None
    | S fuel' =>
      match l with
      | [] => Some []
      | (raw, failed, _) :: l' =>
        if is_error raw then (* handshake ERROR: sent once - a second copy straight behind it breaks the grouping *)
          match l' with
          | (r2, _, _) :: _ => if bytes_eqb r2 raw then None
                               else match emissions fuel' l' with Some e => Some (raw :: e) | None => None end
          | [] => Some [raw]
          end
        else if failed then
          match l' with [] => Some [raw] | _ => None end
        else
          match take_copies raw (N.to_nat (rep - 1)) l' with
          | Some l'' => match emissions fuel' l'' with Some e => Some (raw :: e) | None => None end
          | None => None
          end
      end
    end.

  (** One DATA emission against the file and the flow-control state. *)
  Definition check_data (m : smon) (expect_idx : N) (raw : bytes) : smon * sverdict :=
    match as_data raw with
    | None => (m, mk_sverdict true true true true) (* not DATA: nothing to say here *)
    | Some (n, payload) =>
      let k := lift16 (m_hi m + 1 - 65535) n in (* the only candidate in [hi-65534, hi+1] *)
      let slice_ok := (1 <=? k) && (k <=? nb) && bytes_eqb payload (chunk_at fbyte size blk k) in
      (* reference client: accepts the block it expects; what it accepts must be that block *)
      let '(client', client_ok) :=
        if (m_client m =? 0) then (0, true)
        else if n =? (m_client m) mod 65536 then
          (if lenN payload <? blk then 0 else m_client m + 1,
           bytes_eqb payload (chunk_at fbyte size blk (m_client m)) && (m_client m <=? nb))
        else (m_client m, true) in
      let flow_ok := (k =? expect_idx) && (m_acked m <? k) && (k <=? m_acked m + ws) in
      (mk_smon (N.max (m_hi m) k) (m_acked m) (m_elapsed m) (m_fails m) client' (m_handshake m),
       mk_sverdict (slice_ok && client_ok) (k <=? nb) flow_ok true)
    end.

  Fixpoint check_burst (m : smon) (idx : N) (ems : list bytes) : smon * sverdict :=
    match ems with
    | [] => (m, vtrue)
    | raw :: r =>
      let '(m1, v1) := check_data m idx raw in
      let '(m2, v2) := check_burst m1 (idx + 1) r in (m2, vand v1 v2)
    end.

  (** The burst ended with a send that failed (an I/O error on a first copy ends the transfer). *)
  Definition burst_send_failed (l : list (bytes * bool * option (N * N))) : bool :=
    match rev_append l [] with (_, f, _) :: _ => f | [] => false end.

  Definition has_data (ems : list bytes) : bool :=
    existsb (fun raw => match as_data raw with Some _ => true | None => false end) ems.

  (** [bs]: the bursts after each event; [last]: the burst is followed by the end of the trace. *)
  Fixpoint smon_run (m : smon) (evs : list mev) (bs : list (list (bytes * bool * option (N * N))))
           (ending : tend) : sverdict :=
    match evs, bs with
    | e :: evs', b :: bs' =>
      let is_last := match bs' with [] => true | _ => false end in
      let '(ems, grouped) := match emissions (S (length b)) b with
                             | Some ems => (ems, true)
                             | None => (map (fun x => fst (fst x)) b, false)   (* copies do not group: judge each datagram *)
                             end in
      vand (mk_sverdict true true true grouped)
      (
        if m_handshake m then
          (* reply to the OACK: ERROR or a failed receive or a non-zero ACK ends the transfer without DATA *)
          let stop := match m_raw e with
                      | None => true
                      | Some raw => is_error raw || match as_ack raw with Some n => negb (n =? 0) | None => false end
                      end in
          if stop then mk_sverdict true (is_last && negb (has_data ems)) true true
          else
            let '(m1, v1) := check_burst (mk_smon (m_hi m) (m_acked m) 0 0 (m_client m) false) (m_acked m + 1) ems in
            vand v1 (smon_run m1 evs' bs' ending)
        else
          let elapsed := m_elapsed m + m_delay e in
          let ack := match m_raw e with Some raw => as_ack raw | None => None end in
          let err := match m_raw e with Some raw => is_error raw | None => false end in
          (* an ACK is for an outstanding block iff its number lifts into (acked, hi] *)
          let k := match ack with Some n => lift16 (m_acked m + 1) n | None => 0 end in
          let accepted := match ack with Some _ => (m_acked m <? k) && (k <=? m_hi m) | None => false end in
          let failed_recv := match m_raw e with None => true | Some _ => false end in
          let fails := if accepted then 0 else if failed_recv then m_fails m + 1 else m_fails m in
          if err then mk_sverdict true (is_last && match ems with [] => true | _ => false end) true true
          else if accepted then
            let m0 := mk_smon (m_hi m) k 0 0 (m_client m) false in
            if k =? nb then
              (* the final block is acknowledged: the transfer is over, nothing more is sent *)
              let honoured := is_last && match ems with [] => true | _ => false end
                              && match ending with EndOk => true | _ => false end in
              (* the cumulative ACK of the final block is an in-window ACK like any other: it must be taken (C08) *)
              mk_sverdict true honoured honoured true
            else
              let '(m1, v1) := check_burst m0 (k + 1) ems in
              let not_yet := negb is_last || match ending with EndOk => false | _ => true end in
              (* acknowledgements are cumulative: after ACK(k) transmission resumes at k+1 - at once *)
              let resumes := has_data ems in
              vand (vand v1 (mk_sverdict5 true not_yet resumes true not_yet))
                   (smon_run m1 evs' bs' ending)
          else
            (* no progress: a transmission needs the timeout; a stale / duplicate / foreign ACK must not end the transfer *)
            let sent := match ems with [] => false | _ => true end in
            let timed := tmo <=? elapsed in
            let stale_ack := match ack with Some _ => true | None => false end in
            (* ... unless the retransmission it coincided with (time-out elapsed) failed to send *)
            let io_end := is_last && burst_send_failed b && match ending with EndSendFail => true | _ => false end in
            let c08 := (negb sent || timed)
                       && (negb (stale_ack && is_last) || (retry_budget <=? fails) || io_end) in
            let c07 := (negb (retry_budget <=? fails) || is_last)
                       && (negb is_last || match ending with EndOk => false | _ => true end) in
            (* C04: recovery is driven by the timer - once the timeout has elapsed since the last transmission, a receive
               that brings no progress is followed by the window again (unless the retry budget is used up) *)
            let c04 := c07 && (negb timed || sent || (retry_budget <=? fails)) in
            let m0 := mk_smon (m_hi m) (m_acked m) (if sent then 0 else elapsed) fails (m_client m) false in
            let '(m1, v1) := check_burst m0 (m_acked m + 1) ems in
            vand (vand v1 (mk_sverdict5 true c07 c08 true c04)) (smon_run m1 evs' bs' ending)
      )
    | [], [] => vtrue
    | [], _ :: _ => mk_sverdict true false true true   (* more receives than the padded script has events *)
    | _ :: _, [] => vtrue
    end.

  (** The whole send trace. [check]: the worker waits for the reply to its OACK first. *)
  Definition okSend (check : bool) (evs : list mev) (t : list titem) (ending : tend) : sverdict :=
    match bursts t with
    | [] => vtrue
    | b0 :: bs =>
      match ending with
      | EndRunaway => mk_sverdict true false true true
      | _ =>
        let '(ems0, grouped) := match emissions (S (length b0)) b0 with
                                | Some e => (e, true)
                                | None => (map (fun x => fst (fst x)) b0, false)
                                end in
        let m := mk_smon 0 0 0 0 1 check in
        vand (mk_sverdict true true true grouped)
          (if check then
             vand (mk_sverdict true (negb (has_data ems0)) true true)
                  (smon_run m (pad_events evs tmo (length bs)) bs ending)
           else
             let '(m1, v1) := check_burst m 1 ems0 in
             vand v1 (smon_run m1 (pad_events evs tmo (length bs)) bs ending))
      end
    end.
End SendMonitor.

(** * C02 + C07 / C08 / C16 (receiver) + C13: one pass over a receive trace *)

(** Fingerprints of the file, as the harness takes them inside [Socket::send]: a Fletcher-style
    pair of sums modulo the prime 2^32 - 5, packed as [b * 2^32 + a] (additions only). *)
Definition fnv_init : N := 0.
Definition fp_p : N := 4294967291.
Definition mask32 : N := 4294967295.
Definition addmod (x y : N) : N := let s := x + y in if fp_p <=? s then s - fp_p else s.
Definition fnv_step (h x : N) : N :=
  let a := addmod (N.land h mask32) (x + 1) in
  let b := addmod (N.shiftr h 32) a in
  N.lor (N.shiftl b 32) a.
Definition fnv_extend (h : N) (l : bytes) : N := fold_left fnv_step l h.

Record rmon := mk_rmon {
  q_cnt : N;        (* blocks accepted in sequence so far *)
  q_len : N;        (* their total length *)
  q_hash : N;       (* fingerprint of their concatenation *)
  q_done : bool;    (* a block shorter than blksize was accepted *)
  q_unacked : N;    (* blocks accepted since the last acknowledgement *)
  q_fails : N;      (* consecutive failed receives *)
  q_prefixes : list (N * N); (* fingerprints of the file after each accepted block, latest first *)
  q_wfails : N      (* receives since the last completed window that were neither DATA nor ERROR (what the loop counts) *)
}.

Record rverdict := mk_rverdict { u_c02 : bool; u_c07 : bool; u_c08 : bool; u_c16 : bool; u_c13 : bool; u_c04 : bool }.
Definition uand (a b : rverdict) : rverdict :=
  mk_rverdict (u_c02 a && u_c02 b) (u_c07 a && u_c07 b) (u_c08 a && u_c08 b) (u_c16 a && u_c16 b) (u_c13 a && u_c13 b)
              (u_c04 a && u_c04 b).
Definition utrue := mk_rverdict true true true true true true.

Definition fp_eqb (a b : N * N) : bool := (fst a =? fst b) && (snd a =? snd b).

Section RecvMonitor.
  Variables (blk ws rep : N) (clean : bool).

  (** Runs of exactly [rep] identical ACK copies; a failed first copy ends the burst. *)
  Fixpoint ack_emissions (fuel : nat) (l : list (bytes * bool * option (N * N)))
    : option (list (bytes * option (N * N))) :=
    match fuel with
    | O => None
    | S fuel' =>
      match l with
      | [] => Some []
      | (raw, failed, snap) :: l' =>
        if failed then match l' with [] => Some [(raw, snap)] | _ => None end
        else match take_copies raw (N.to_nat (rep - 1)) l' with
             | Some l'' => match ack_emissions fuel' l'' with Some e => Some ((raw, snap) :: e) | None => None end
             | None => None
             end
      end
    end.

  (** Every copy of a burst shows the same file. *)
  Definition snaps_agree (l : list (bytes * bool * option (N * N))) : bool :=
    match l with
    | [] => true
    | (_, _, s0) :: r =>
      forallb (fun x => match s0, snd x with
                        | Some a, Some b => fp_eqb a b
                        | None, None => true
                        | _, _ => false
                        end) r
    end.

  Definition last_failed (l : list (bytes * bool * option (N * N))) : bool :=
    match rev_append l [] with (_, f, _) :: _ => f | [] => false end.

  Fixpoint rmon_run (m : rmon) (evs : list mev) (bs : list (list (bytes * bool * option (N * N))))
           (ending : tend) (final : option (N * N)) : rverdict :=
    match evs, bs with
    | e :: evs', b :: bs' =>
      let is_last := match bs' with [] => true | _ => false end in
      (* the arrival, cut to the receive buffer *)
      let dat := match m_raw e with Some raw => as_data (firstn (N.to_nat (blk + 4)) raw) | None => None end in
      let err := match m_raw e with Some raw => is_error (firstn (N.to_nat (blk + 4)) raw) | None => false end in
      let acc := match dat with
                 | Some (n, p) => negb (q_done m) && (n =? (q_cnt m + 1) mod 65536)
                 | None => false
                 end in
      let payload := match dat with Some (_, p) => p | None => [] end in
      let m1 :=
        if acc then
          let h := fnv_extend (q_hash m) payload in
          let len := q_len m + lenN payload in
          mk_rmon (q_cnt m + 1) len h (lenN payload <? blk) (q_unacked m + 1) 0 ((len, h) :: q_prefixes m) (q_wfails m)
        else
          mk_rmon (q_cnt m) (q_len m) (q_hash m) (q_done m) (q_unacked m)
                  (match m_raw e with None => q_fails m + 1 | Some _ => q_fails m end) (q_prefixes m)
                  (match dat with Some _ => q_wfails m | None => if err then q_wfails m else q_wfails m + 1 end) in
      match ack_emissions (S (length b)) b with
      | None => mk_rverdict true true true false true true
      | Some ems =>
        (* C02: every ACK carries the count of blocks accepted in sequence, and the file holds exactly them *)
        let c02 := forallb (fun x =>
                     match as_ack (fst x) with
                     | Some a => (a =? q_cnt m1 mod 65536)
                                 && match snd x with Some s => fp_eqb s (q_len m1, q_hash m1) | None => true end
                     | None => false
                     end) ems && snaps_agree b in
        let acked := match ems with [] => false | _ => true end in
        (* C08: an acknowledgement at the latest after [ws] consecutive in-order blocks and on the final block *)
        let must_ack := acc && ((q_unacked m1 =? ws) || q_done m1) in
        let c08 := (negb must_ack || acked) && (q_unacked m1 <=? ws) in
        (* C07: ERROR ends at once and silently; the final block ends the transfer after its ACK;
           bounded consecutive failures; success only through the final block *)
        let sendfail := last_failed b in
        let c07 :=
          (if err then is_last && negb acked
           else if acc && q_done m1 then is_last && (sendfail || match ending with EndOk => true | _ => false end)
           else (negb (retry_budget <=? q_fails m1) || is_last)
                && (negb is_last || match ending with EndOk => false | _ => true end)) in
        let m2 := mk_rmon (q_cnt m1) (q_len m1) (q_hash m1) (q_done m1) (if acked then 0 else q_unacked m1)
                          (q_fails m1) (q_prefixes m1) (if acc && acked then 0 else q_wfails m1) in
        (* C04: a block that was already acknowledged arrives again while nothing is buffered (the sender
           did not get our ACK): the ACK must be repeated, otherwise a single lost ACK fails the upload *)
        let dup_of_acked := match dat with
                            | Some (n, _) => negb acc && negb (q_done m) && (q_unacked m =? 0) && (1 <=? q_cnt m)
                                             && (let k := lift16 (q_cnt m + 1 - N.min (q_cnt m) 65535) n in k <=? q_cnt m)
                            | None => false
                            end in
        (* ... and the loop may give up only after [retry_budget] receives without DATA since the last completed window *)
        let gave_up := is_last && match ending with EndTimeout => true | _ => false end in
        let c04 := (negb dup_of_acked || acked) && (negb gave_up || (retry_budget <=? q_wfails m1)) in
        let v := mk_rverdict c02 c07 c08 true true c04 in
        if is_last then
          (* C13: what is left on disk *)
          (* the final block was accepted and its acknowledgement went out (first copy sent): the peer holds a completed
             upload, whatever the worker makes of a later copy - the file is the upload from then on *)
          let final_acked := q_done m2 && existsb (fun x => match x with
                                                            | (raw, failed, _) => negb failed && match as_ack raw with
                                                                                                  | Some n => n =? (q_cnt m2) mod 65536
                                                                                                  | None => false end end) b in
          let c13 :=
            match ending with
            | EndOk => match final with Some f => fp_eqb f (q_len m2, q_hash m2) && q_done m2 | None => false end
            | EndRunaway => true
            | _ => if final_acked then match final with Some f => fp_eqb f (q_len m2, q_hash m2) | None => false end
                   else if clean then match final with None => true | Some _ => false end
                   else match final with
                        | Some f => existsb (fp_eqb f) ((0, fnv_init) :: q_prefixes m2)
                        | None => false
                        end
            end in
          uand v (mk_rverdict true true true true c13 true)
        else uand v (rmon_run m2 evs' bs' ending final)
      end
    | [], [] => utrue
    | [], _ :: _ => mk_rverdict true false true true true true
    | _ :: _, [] => utrue
    end.

  (** The whole receive trace: nothing is sent before the first receive. *)
  Definition okRecv (tmo : N) (evs : list mev) (t : list titem) (ending : tend) (final : option (N * N)) : rverdict :=
    match bursts t with
    | [] => utrue
    | b0 :: bs =>
      match ending with
      | EndRunaway =>
        (* the worker never gives its silent peer up: C07; and with clean-on-error it never removes the partial file: C13 *)
        mk_rverdict true false true true (negb clean) true
      | _ =>
        let v0 := mk_rverdict (match b0 with [] => true | _ => false end) true true true true true in
        match bs with
        | [] => v0
        | _ => uand v0 (rmon_run (mk_rmon 0 0 fnv_init false 0 0 [] 0) (pad_events evs tmo (length bs)) bs ending final)
        end
      end
    end.
End RecvMonitor.

(** * C16 / C17: a configuration that was accepted never carries [--duplicate-packets N] with N >= 255 *)
Definition lit_duplicate_packets : bytes :=
  [45; 45; 100; 117; 112; 108; 105; 99; 97; 116; 101; 45; 112; 97; 99; 107; 101; 116; 115]. (* "--duplicate-packets" *)
Definition dup_value_ok (v : bytes) : bool := match parse_bounded 255 v with Some _ => true | None => false end.
Fixpoint okDupArgs (args : list bytes) : bool :=
  match args with
  | [] => true
  | a :: r =>
    (if bytes_eqb a lit_duplicate_packets then match r with v :: _ => dup_value_ok v | [] => false end else true)
    && okDupArgs r
  end.

(** * C09: values the server cannot honour (the property's words, literal numbers) *)
Definition unhonourable (o : topt) : bool :=
  match o_type o with
  | OBlkSize => (o_val o <? 8) || (65464 <? o_val o)
  | OTimeout => (o_val o =? 0) || (255 <? o_val o)
  | OWindowSize => (o_val o =? 0) || (65535 <? o_val o)
  | OTSize => false
  end.
