(** The two transfer loops of worker.rs as [init]/[step] machines over the
    results of [Socket::recv].  Every turn of either loop performs exactly one
    receive, so a worker's behaviour is a function of its configuration, its
    file, and the list of receive results (with virtual arrival delays).

    [Socket::send] may fail: [fails] lists the indices (counted per worker from
    0) of the send calls that return an error. *)
From Tftp Require Import Base.Prelude Model.Types Model.Consts Model.Codec Model.Window.
Local Open Scope N_scope.

(** One result of [Socket::recv]: a datagram (handed to the decoder after the
    socket layer truncated it to its buffer) or a failure (timeout, I/O error). *)
Inductive ev := EvDgram (delay : N) (raw : bytes) | EvFail (delay : N).

Definition ev_delay (e : ev) : N := match e with EvDgram d _ => d | EvFail d => d end.

Inductive outcome :=
| OutOk          (* transfer completed *)
| OutTimeout     (* retry limit *)
| OutPeer        (* ERROR packet from the peer *)
| OutWinRemove | OutWinAdd   (* Window misuse errors *)
| OutSendFail    (* Socket::send returned an error *)
| OutRecvFail    (* check_response: recv()? failed *)
| OutBadOack     (* check_response: non-zero ACK *)
| OutIo          (* file error *)
| OutPanic.      (* thread panic: arithmetic overflow or decoder panic *)

(** A call of [Socket::send] with its result. *)
Record sent := mk_sent { s_pk : packet; s_failed : bool }.

Definition memN (x : N) (l : list N) : bool := existsb (N.eqb x) l.

Definition wadd16 (a b : N) : N := (a + b) mod 65536.
Definition wsub16 (a b : N) : N := (a + 65536 - b mod 65536) mod 65536.

(** What the loops see of a receive: [recv_with_size(size)] of the [UdpSocket]
    flavour truncates the datagram to [size + 4] bytes, then decodes. *)
Inductive rcv := RPacket (p : packet) | RNone | RPanic.

Definition receive (size : N) (e : ev) : rcv :=
  match e with
  | EvFail _ => RNone
  | EvDgram _ raw =>
    match decode (takeN (size + 4) raw) with
    | Ok p => RPacket p
    | Err _ => RNone
    | Panic | Abort => RPanic
    end
  end.

(** [send_packet]: [repeat] copies; only the result of the first one matters.
    Returns the calls made, the new send counter, and whether it succeeded. *)
Fixpoint send_copies (fails : list N) (p : packet) (n : nat) (idx : N) : list sent :=
  match n with
  | O => []
  | S n' => mk_sent p (memN idx fails) :: send_copies fails p n' (idx + 1)
  end.

Definition send_packet (fails : list N) (rep : N) (p : packet) (nsent : N) : list sent * N * bool :=
  if rep =? 0 then ([], nsent, true)
  else if memN nsent fails then ([mk_sent p true], nsent + 1, false)
  else (mk_sent p false :: send_copies fails p (N.to_nat (rep - 1)) (nsent + 1), nsent + rep, true).

(** [send_window] *)
Fixpoint send_window (fails : list N) (rep : N) (bn : N) (win : list bytes) (nsent : N)
  : list sent * N * bool :=
  match win with
  | [] => ([], nsent, true)
  | c :: r =>
    let '(o1, n1, ok1) := send_packet fails rep (Data bn c) nsent in
    if ok1 then
      let '(o2, n2, ok2) := send_window fails rep (wadd16 bn 1) r n1 in (o1 ++ o2, n2, ok2)
    else (o1, n1, false)
  end.

(** * Sender ([Worker::send_file]) *)

Record scfg := mk_scfg {
  s_blk : N; s_ws : N; s_tmo : N (* ns *); s_rep : N; s_check : bool; s_fails : list N }.

Inductive sphase := SAwaitOack | SInWindow | SDone (o : outcome).

Record sstate := mk_sstate {
  s_bn : N;            (* block_number : u16 *)
  s_w : window;        (* window over the file being read *)
  s_filled : bool;     (* result of the last fill (true before the first) *)
  s_retry : N;         (* retry_cnt *)
  s_since : N;         (* time.elapsed() at the last receive return, ns *)
  s_nsent : N;         (* number of Socket::send calls so far *)
  s_phase : sphase;
  s_abs : N            (* ghost: unbounded number of the block at the window front *)
}.

Definition s_set_phase (st : sstate) (ph : sphase) : sstate :=
  mk_sstate (s_bn st) (s_w st) (s_filled st) (s_retry st) (s_since st) (s_nsent st) ph (s_abs st).

Definition s_done (st : sstate) (o : outcome) : sstate := s_set_phase st (SDone o).

(** Top of the inner loop: [if time.elapsed() >= timeout { send_window; time = now }],
    then block in [recv]. *)
Definition s_inner_top (cfg : scfg) (st : sstate) : sstate * list sent :=
  if s_tmo cfg <=? s_since st then
    let '(out, n, ok) := send_window (s_fails cfg) (s_rep cfg) (s_bn st) (w_elems (s_w st)) (s_nsent st) in
    if ok then (mk_sstate (s_bn st) (s_w st) (s_filled st) (s_retry st) 0 n (s_phase st) (s_abs st), out)
    else (mk_sstate (s_bn st) (s_w st) (s_filled st) (s_retry st) (s_since st) n (SDone OutSendFail) (s_abs st), out)
  else (st, []).

(** Top of the outer loop: refill unless the end of file was seen, reset the retry
    counter, arm the timer so that the window is sent at once. *)
Definition s_outer_top (cfg : scfg) (st : sstate) : sstate * list sent :=
  let armed := s_tmo cfg + timeout_buffer_ns in
  if s_filled st then
    match fill (s_w st) with
    | WOk (w', full) =>
      s_inner_top cfg (mk_sstate (s_bn st) w' full 0 armed (s_nsent st) SInWindow (s_abs st))
    | WErr _ => (s_done st OutIo, [])
    end
  else s_inner_top cfg (mk_sstate (s_bn st) (s_w st) false 0 armed (s_nsent st) SInWindow (s_abs st)).

Definition invalid_oack_msg : bytes :=
  [105; 110; 118; 97; 108; 105; 100; 32; 111; 97; 99; 107; 32; 114; 101; 115; 112; 111; 110; 115; 101].
  (* "invalid oack response" *)

Definition send_init (cfg : scfg) (content : bytes) : sstate * list sent :=
  let st0 := mk_sstate 1 (window_new (s_ws cfg) (s_blk cfg) (file_for_read content))
                       true 0 0 0 (if s_check cfg then SAwaitOack else SInWindow) 1 in
  if s_check cfg then (st0, []) else s_outer_top cfg st0.

Definition send_step (cfg : scfg) (st : sstate) (e : ev) : sstate * list sent :=
  match s_phase st with
  | SDone _ => (st, [])
  | SAwaitOack =>
    (* check_response: self.socket.recv()? *)
    match receive max_request_packet_size e with
    | RPanic => (s_done st OutPanic, [])
    | RNone => (s_done st OutRecvFail, [])
    | RPacket (Ack n) =>
      if n =? 0 then s_outer_top cfg st
      else
        let failed := memN (s_nsent st) (s_fails cfg) in
        (mk_sstate (s_bn st) (s_w st) (s_filled st) (s_retry st) (s_since st) (s_nsent st + 1)
                   (SDone (if failed then OutSendFail else OutBadOack)) (s_abs st),
         [mk_sent (Error EIllegalOperation invalid_oack_msg) failed])
    | RPacket (Error _ _) => (s_done st OutPeer, [])
    | RPacket _ => s_outer_top cfg st
    end
  | SInWindow =>
    let st := mk_sstate (s_bn st) (s_w st) (s_filled st) (s_retry st) (s_since st + ev_delay e)
                        (s_nsent st) (s_phase st) (s_abs st) in
    let failed_attempt :=
      let r := s_retry st + 1 in
      if r =? max_retries then (s_done st OutTimeout, [])
      else s_inner_top cfg (mk_sstate (s_bn st) (s_w st) (s_filled st) r (s_since st) (s_nsent st)
                                      (s_phase st) (s_abs st)) in
    match receive max_request_packet_size e with
    | RPanic => (s_done st OutPanic, [])
    | RPacket (Ack r) =>
      let diff := wsub16 r (s_bn st) in
      if diff <? w_len (s_w st) then
        if 65535 <? diff + 1 then (s_done st OutPanic, []) (* u16 overflow of diff + 1 *)
        else
          match remove (s_w st) (diff + 1) with
          | WErr _ => (s_done st OutWinRemove, [])
          | WOk w' =>
            let st' := mk_sstate (wadd16 r 1) w' (s_filled st) (s_retry st) (s_since st) (s_nsent st)
                                 (s_phase st) (s_abs st + diff + 1) in
            if negb (s_filled st) && w_is_empty w' then (s_done st' OutOk, [])
            else s_outer_top cfg st'
          end
      else s_inner_top cfg st (* not in the window: ignored, the loop turns *)
    | RPacket (Error _ _) => (s_done st OutPeer, [])
    | RPacket _ => failed_attempt
    | RNone => failed_attempt
    end
  end.

(** Run over an event list: the burst emitted before the first receive, then one burst per event. *)
Fixpoint send_steps (cfg : scfg) (st : sstate) (evs : list ev) : sstate * list (list sent) :=
  match evs with
  | [] => (st, [])
  | e :: r => let '(st1, out) := send_step cfg st e in
              let '(st2, outs) := send_steps cfg st1 r in (st2, out :: outs)
  end.

Definition run_send (cfg : scfg) (content : bytes) (evs : list ev) : sstate * list (list sent) :=
  let '(st0, out0) := send_init cfg content in
  let '(st, outs) := send_steps cfg st0 evs in (st, out0 :: outs).

(** * Receiver ([Worker::receive_file]) *)

Record rcfg := mk_rcfg { r_blk : N; r_ws : N; r_tmo : N; r_rep : N; r_clean : bool; r_fails : list N }.

Inductive rphase := RRun | RDone (o : outcome).

Record rstate := mk_rstate {
  r_bn : N;          (* block_number : u16 *)
  r_w : window;      (* window over the created file *)
  r_retry : N;
  r_nsent : N;
  r_phase : rphase;
  r_cnt : N          (* ghost: unbounded count of blocks accepted in sequence *)
}.

(** An ACK as observed: the call, and the bytes the file held at that moment. *)
Record acked := mk_acked { a_sent : sent; a_file : list bytes (* written chunks, most recent first *) }.

Definition r_done (st : rstate) (o : outcome) : rstate :=
  mk_rstate (r_bn st) (r_w st) (r_retry st) (r_nsent st) (RDone o) (r_cnt st).

Definition recv_init (cfg : rcfg) : rstate :=
  mk_rstate 0 (window_new (r_ws cfg) (r_blk cfg) file_created) 0 0 RRun 0.

Definition tag_file (w : window) (l : list sent) : list acked :=
  map (fun s => mk_acked s (f_written (w_file w))) l.

(** [send_packet(&Packet::Ack(block_number))?] *)
Definition r_ack (cfg : rcfg) (st : rstate) (next : rphase) : rstate * list acked :=
  let '(out, n, ok) := send_packet (r_fails cfg) (r_rep cfg) (Ack (r_bn st)) (r_nsent st) in
  (mk_rstate (r_bn st) (r_w st) (r_retry st) n (if ok then next else RDone OutSendFail) (r_cnt st),
   tag_file (r_w st) out).

Definition recv_step (cfg : rcfg) (st : rstate) (e : ev) : rstate * list acked :=
  match r_phase st with
  | RDone _ => (st, [])
  | RRun =>
    let failed_attempt :=
      let r := r_retry st + 1 in
      if r =? max_retries then (r_done st OutTimeout, [])
      else (mk_rstate (r_bn st) (r_w st) r (r_nsent st) RRun (r_cnt st), []) in
    match receive (r_blk cfg) e with
    | RPanic => (r_done st OutPanic, [])
    | RPacket (Data n d) =>
      if n =? wadd16 (r_bn st) 1 then
        match add (r_w st) d with
        | WErr _ => (r_done (mk_rstate n (r_w st) (r_retry st) (r_nsent st) RRun (r_cnt st)) OutWinAdd, [])
        | WOk w1 =>
          let final := lenN d <? r_blk cfg in
          if final || w_is_full w1 then
            (* leave the inner loop: window.empty()?, then the ACK; the retry counter restarts *)
            match empty w1 with
            | WErr _ => (r_done (mk_rstate n w1 (r_retry st) (r_nsent st) RRun (r_cnt st + 1)) OutIo, [])
            | WOk w2 =>
              r_ack cfg (mk_rstate n w2 0 (r_nsent st) RRun (r_cnt st + 1))
                    (if final then RDone OutOk else RRun)
            end
          else (mk_rstate n w1 (r_retry st) (r_nsent st) RRun (r_cnt st + 1), [])
        end
      else if w_is_empty (r_w st) then r_ack cfg st RRun (* repeat the last ACK *)
      else (st, [])
    | RPacket (Error _ _) => (r_done st OutPeer, [])
    | RPacket _ => failed_attempt
    | RNone => failed_attempt
    end
  end.

Fixpoint recv_steps (cfg : rcfg) (st : rstate) (evs : list ev) : rstate * list (list acked) :=
  match evs with
  | [] => (st, [])
  | e :: r => let '(st1, out) := recv_step cfg st e in
              let '(st2, outs) := recv_steps cfg st1 r in (st2, out :: outs)
  end.

Definition run_recv (cfg : rcfg) (evs : list ev) : rstate * list (list acked) :=
  recv_steps cfg (recv_init cfg) evs.

(** What [Worker::receive] leaves on disk: the file as written, unless the
    transfer failed and clean-on-error removed it. *)
Definition recv_final_file (cfg : rcfg) (st : rstate) : option (list bytes) :=
  match r_phase st with
  | RDone OutOk => Some (f_written (w_file (r_w st)))
  | RDone _ => if r_clean cfg then None else Some (f_written (w_file (r_w st)))
  | RRun => Some (f_written (w_file (r_w st)))
  end.

(** Silence: what the scripted socket answers once its script is exhausted. *)
Definition silence (tmo : N) (n : nat) : list ev := repeat (EvFail tmo) n.
