(** The bundled client (client.rs): request construction, handling of the first reply, where a
    download is stored.  The transfer itself reuses the worker models. *)
From Tftp Require Import Base.Prelude Model.Types Model.Consts Model.Codec Model.Window Model.Worker Model.Server.
Local Open Scope N_scope.

Definition octet : bytes := [111; 99; 116; 101; 116].

(** [Path::file_name]: the last normal component; [None] when the path ends in ".." or has none. *)
Definition file_name (p : bytes) : option bytes :=
  match rev (cp_segs (components p)) with
  | s :: _ => if is_dotdot s || is_dot s then None else Some s
  | [] => None
  end.

(** The four options in the order the client sends them. *)
Definition client_opts (blk ws tmo_s tsize : N) : list topt :=
  [mk_opt OBlkSize blk; mk_opt OWindowSize ws; mk_opt OTimeout tmo_s; mk_opt OTSize tsize].

(** Download: [file_path] is the command-line argument after [convert_file_path]. *)
Definition download_request (file_path : bytes) (blk ws tmo_s : N) : packet :=
  Rrq file_path octet (client_opts blk ws tmo_s 0).

(** Upload: the request names the base name of the local file and announces its size. *)
Definition upload_request (local_path : bytes) (blk ws tmo_s size : N) : option packet :=
  match file_name local_path with
  | Some n => Some (Wrq n octet (client_opts blk ws tmo_s size))
  | None => None
  end.

(** [verify_oack]: adopt blksize and windowsize (the latter through [as u16]). *)
Fixpoint adopt (os : list topt) (blk ws : N) : N * N :=
  match os with
  | [] => (blk, ws)
  | o :: r => match o_type o with
              | OBlkSize => adopt r (o_val o) ws
              | OWindowSize => adopt r blk (o_val o mod 65536)
              | _ => adopt r blk ws
              end
  end.

(** What the client does with the first reply to a download request. *)
Inductive first_reply := FrTransfer (blk ws : N) (send_ack0 : bool) | FrRefused (c : errcode) | FrUnexpected.

Definition on_first_reply_download (p : packet) (blk ws : N) : first_reply :=
  match p with
  | Oack os => let '(b, w) := adopt os blk ws in FrTransfer b w true
  | Error c _ => FrRefused c
  | _ => FrUnexpected
  end.

Definition on_first_reply_upload (p : packet) (blk ws : N) : first_reply :=
  match p with
  | Oack os => let '(b, w) := adopt os blk ws in FrTransfer b w false
  | Ack _ => FrTransfer client_default_blk client_default_ws false
  | Error c _ => FrRefused c
  | _ => FrUnexpected
  end.

(** Where a download is stored: the receive directory joined with the base name of the requested path. *)
Definition download_target (rdir file_path : bytes) : option bytes :=
  match file_name file_path with Some n => Some (join rdir n) | None => None end.

(** The client's worker always runs with the 5 s default time-out and no duplicates. *)
Definition client_rcfg (blk ws : N) : rcfg := mk_rcfg blk ws client_default_timeout_ns 1 true [].
Definition client_scfg (blk ws : N) : scfg := mk_scfg blk ws client_default_timeout_ns 1 false [].
