(** Wire codec: [Packet::serialize] / [Packet::deserialize] with [Convert::to_u16],
    [Convert::to_string].  Every slice, index and usize subtraction of the Rust
    code is written with a primitive that can return [Panic]. *)
From Tftp Require Import Base.Prelude Base.Utf8 Base.Decimal Model.Types Model.Consts.
Local Open Scope N_scope.

(** * Generated tables as functions *)

Fixpoint assoc {A B} (eqb : A -> A -> bool) (k : A) (t : list (A * B)) : option B :=
  match t with
  | [] => None
  | (k', v) :: r => if eqb k k' then Some v else assoc eqb k r
  end.

Definition opcode_of_u16 (v : N) : option opcode := assoc N.eqb v opcode_from_u16.
Definition u16_of_opcode (o : opcode) : N :=
  match assoc opcode_eqb o opcode_as_u16 with Some v => v | None => 0 end.
Definition errcode_of_u16 (v : N) : option errcode := assoc N.eqb v errcode_from_u16.
Definition u16_of_errcode (c : errcode) : N :=
  match assoc errcode_eqb c errcode_as_u16 with Some v => v | None => 0 end.
Definition opt_name (o : opt_type) : bytes :=
  match assoc opt_type_eqb o opt_as_str with Some s => s | None => [] end.
Definition opt_of_name (s : bytes) : option opt_type := assoc bytes_eqb s opt_from_str.

(** * Encoding *)

Definition u16_be (n : N) : bytes := [n / 256; n mod 256].

Definition enc_opt (o : topt) : bytes :=
  opt_name (o_type o) ++ [0] ++ to_dec (o_val o) ++ [0].

Definition enc_opts (os : list topt) : bytes := flat_map enc_opt os.

Definition encode (p : packet) : bytes :=
  match p with
  | Rrq f m os => u16_be (u16_of_opcode OpRrq) ++ f ++ [0] ++ m ++ [0] ++ enc_opts os
  | Wrq f m os => u16_be (u16_of_opcode OpWrq) ++ f ++ [0] ++ m ++ [0] ++ enc_opts os
  | Data n d => u16_be (u16_of_opcode OpData) ++ u16_be n ++ d
  | Ack n => u16_be (u16_of_opcode OpAck) ++ u16_be n
  | Error c m => u16_be (u16_of_opcode OpError) ++ u16_be (u16_of_errcode c) ++ m ++ [0]
  | Oack os => u16_be (u16_of_opcode OpOack) ++ enc_opts os
  end.

(** * Decoding *)

(** [buf[i..]]: panics when [i > len]. *)
Definition slice_from (buf : bytes) (i : nat) : res bytes :=
  if (length buf <? i)%nat then Panic else Ok (skipn i buf).

(** [Convert::to_u16] *)
Definition to_u16 (buf : bytes) : res N :=
  match buf with
  | a :: b :: _ => Ok (a * 256 + b)
  | _ => Err EU16
  end.

(** [Convert::to_string(buf, start)]: [buf[start..]] panics when [start > len];
    [buf[start..start+index]] cannot, because [index] was found inside. *)
Definition to_string (buf : bytes) (start : nat) : res (bytes * nat) :=
  do tl <- slice_from buf start;
  match find_zero tl with
  | Some idx =>
      let s := firstn idx tl in
      if utf8_valid s then Ok (s, (idx + start)%nat) else Err EUtf8
  | None => Err ENoNul
  end.

(** [OptionType::from_str(option.to_lowercase().as_str())] *)
Definition recognise (name : bytes) : option opt_type := opt_of_name (lower name).

(** The option loop shared by [parse_rq] and [parse_oack]:
    [while zero_index < buf.len() - 1 { .. }].  [fuel] only makes the recursion
    structural; [parse_opts_fuel_enough] shows [length buf] always suffices. *)
Fixpoint parse_opts (fuel : nat) (buf : bytes) (zi : nat) : res (list topt) :=
  match length buf with
  | O => Panic (* buf.len() - 1 underflows *)
  | S lm1 =>
    if (zi <? lm1)%nat then
      match fuel with
      | O => Err EFuel
      | S f =>
        do (name, zi1) <- to_string buf (zi + 1);
        do (val, zi2) <- to_string buf (zi1 + 1);
        match recognise name with
        | Some ty =>
          match parse_usize val with
          | Some v => do os <- parse_opts f buf zi2; Ok (mk_opt ty v :: os)
          | None => Err ENum
          end
        | None => parse_opts f buf zi2
        end
      end
    else Ok []
  end.

Definition parse_rq (buf : bytes) (op : opcode) : res packet :=
  do (filename, zi) <- to_string buf 2;
  do (mode, zi) <- to_string buf (zi + 1);
  do os <- parse_opts (length buf) buf zi;
  match op with
  | OpRrq => Ok (Rrq filename mode os)
  | OpWrq => Ok (Wrq filename mode os)
  | _ => Err EOpcode
  end.

Definition parse_data (buf : bytes) : res packet :=
  do t <- slice_from buf 2;
  do n <- to_u16 t;
  do d <- slice_from buf 4;
  Ok (Data n d).

Definition parse_ack (buf : bytes) : res packet :=
  do t <- slice_from buf 2;
  do n <- to_u16 t;
  Ok (Ack n).

Definition parse_oack (buf : bytes) : res packet :=
  do os <- parse_opts (length buf) buf 1;
  Ok (Oack os).

Definition no_message : bytes := [40; 110; 111; 32; 109; 101; 115; 115; 97; 103; 101; 41]. (* "(no message)" *)

Definition parse_error (buf : bytes) : res packet :=
  do t <- slice_from buf 2;
  do v <- to_u16 t;
  match errcode_of_u16 v with
  | None => Err EErrCode
  | Some c =>
    match to_string buf 4 with
    | Ok (m, _) => Ok (Error c m)
    | Err _ => Ok (Error c no_message)
    | Panic => Panic
    | Abort => Abort
    end
  end.

(** [Packet::deserialize] *)
Definition decode (buf : bytes) : res packet :=
  if (length buf <? 2)%nat then Err EShort else
  do v <- to_u16 (firstn 2 buf);
  match opcode_of_u16 v with
  | None => Err EOpcode
  | Some OpRrq => parse_rq buf OpRrq
  | Some OpWrq => parse_rq buf OpWrq
  | Some OpData => parse_data buf
  | Some OpAck => parse_ack buf
  | Some OpOack => parse_oack buf
  | Some OpError => parse_error buf
  end.

(** * Well-formed packet values (what a Rust [Packet] can be) *)

Definition wf_str (s : bytes) : Prop := utf8_valid s = true /\ nonul s.
Definition wf_opt (o : topt) : Prop := o_val o < usize_limit.
Definition wf_u16 (n : N) : Prop := n < 65536.

Definition wf (p : packet) : Prop :=
  match p with
  | Rrq f m os | Wrq f m os => wf_str f /\ wf_str m /\ Forall wf_opt os
  | Data n _ => wf_u16 n
  | Ack n => wf_u16 n
  | Error _ m => wf_str m
  | Oack os => Forall wf_opt os
  end.
