(** Packet types (hand-written); their numeric tables are generated into Consts.v. *)
From Tftp Require Import Base.Prelude.

Inductive opcode := OpRrq | OpWrq | OpData | OpAck | OpError | OpOack.

Inductive errcode :=
| ENotDefined | EFileNotFound | EAccessViolation | EDiskFull
| EIllegalOperation | EUnknownId | EFileExists | ENoSuchUser.

Inductive opt_type := OBlkSize | OTSize | OTimeout | OWindowSize.

Record topt := mk_opt { o_type : opt_type; o_val : N }.

Inductive packet :=
| Rrq (filename mode : bytes) (opts : list topt)
| Wrq (filename mode : bytes) (opts : list topt)
| Data (block : N) (payload : bytes)
| Ack (block : N)
| Error (code : errcode) (msg : bytes)
| Oack (opts : list topt).

Definition opcode_eqb (a b : opcode) : bool :=
  match a, b with
  | OpRrq, OpRrq | OpWrq, OpWrq | OpData, OpData | OpAck, OpAck | OpError, OpError | OpOack, OpOack => true
  | _, _ => false
  end.

Definition errcode_eqb (a b : errcode) : bool :=
  match a, b with
  | ENotDefined, ENotDefined | EFileNotFound, EFileNotFound | EAccessViolation, EAccessViolation
  | EDiskFull, EDiskFull | EIllegalOperation, EIllegalOperation | EUnknownId, EUnknownId
  | EFileExists, EFileExists | ENoSuchUser, ENoSuchUser => true
  | _, _ => false
  end.

Definition opt_type_eqb (a b : opt_type) : bool :=
  match a, b with
  | OBlkSize, OBlkSize | OTSize, OTSize | OTimeout, OTimeout | OWindowSize, OWindowSize => true
  | _, _ => false
  end.

Definition all_opcodes := [OpRrq; OpWrq; OpData; OpAck; OpError; OpOack].
Definition all_errcodes := [ENotDefined; EFileNotFound; EAccessViolation; EDiskFull;
                            EIllegalOperation; EUnknownId; EFileExists; ENoSuchUser].
Definition all_opt_types := [OBlkSize; OTSize; OTimeout; OWindowSize].
