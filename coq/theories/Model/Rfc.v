(** The RFC 1350 / 2347 wire layout written with literal numbers and names,
    independently of the generated tables and of [encode]. *)
From Tftp Require Import Base.Prelude Base.Decimal Model.Types.
Local Open Scope N_scope.

Definition rfc_opt_name (o : opt_type) : bytes :=
  match o with
  | OBlkSize => [98; 108; 107; 115; 105; 122; 101]               (* "blksize" *)
  | OTSize => [116; 115; 105; 122; 101]                          (* "tsize" *)
  | OTimeout => [116; 105; 109; 101; 111; 117; 116]              (* "timeout" *)
  | OWindowSize => [119; 105; 110; 100; 111; 119; 115; 105; 122; 101] (* "windowsize" *)
  end.

Definition rfc_errcode (c : errcode) : N :=
  match c with
  | ENotDefined => 0 | EFileNotFound => 1 | EAccessViolation => 2 | EDiskFull => 3
  | EIllegalOperation => 4 | EUnknownId => 5 | EFileExists => 6 | ENoSuchUser => 7
  end.

Fixpoint rfc_opts (os : list topt) : bytes :=
  match os with
  | [] => []
  | o :: r => rfc_opt_name (o_type o) ++ 0 :: to_dec (o_val o) ++ 0 :: rfc_opts r
  end.

Definition rfc_layout (p : packet) : bytes :=
  match p with
  | Rrq f m os => 0 :: 1 :: f ++ 0 :: m ++ 0 :: rfc_opts os
  | Wrq f m os => 0 :: 2 :: f ++ 0 :: m ++ 0 :: rfc_opts os
  | Data n d => 0 :: 3 :: n / 256 :: n mod 256 :: d
  | Ack n => [0; 4; n / 256; n mod 256]
  | Error c m => 0 :: 5 :: 0 :: rfc_errcode c :: m ++ [0]
  | Oack os => 0 :: 6 :: rfc_opts os
  end.
