(** Upload life cycles over one receive directory (C13): which file exists after any history of
    accepted uploads that complete or fail, possibly overlapping on one name.  The directory is
    an association list name -> content; a worker is accepted ([File::create]: the name then
    holds an empty file), completes (the name holds its content) or fails (clean-on-error:
    [remove_file] of whatever the name denotes at that moment). *)
From Tftp Require Import Base.Prelude.
Local Open Scope N_scope.

Definition dir := list (bytes * bytes).

Fixpoint d_lookup (n : bytes) (d : dir) : option bytes :=
  match d with [] => None | (m, c) :: r => if bytes_eqb m n then Some c else d_lookup n r end.
Fixpoint d_set (n c : bytes) (d : dir) : dir :=
  match d with [] => [(n, c)] | (m, x) :: r => if bytes_eqb m n then (m, c) :: r else (m, x) :: d_set n c r end.
Fixpoint d_del (n : bytes) (d : dir) : dir :=
  match d with [] => [] | (m, x) :: r => if bytes_eqb m n then r else (m, x) :: d_del n r end.

Inductive uev :=
| UAccept (w : N) (name : bytes) (clean : bool)   (* a write request is accepted, its worker creates the file *)
| UWrite (w : N) (content : bytes)                (* the worker flushes: the file holds [content] (a prefix of the upload) *)
| UDone (w : N)                                   (* the worker ends in success *)
| UFail (w : N).                                  (* the worker ends in failure *)

Record usys := mk_usys { u_dir : dir; u_live : list (N * (bytes * bool)) }.

Fixpoint w_lookup (w : N) (l : list (N * (bytes * bool))) : option (bytes * bool) :=
  match l with [] => None | (v, x) :: r => if v =? w then Some x else w_lookup w r end.
Definition w_del (w : N) (l : list (N * (bytes * bool))) := filter (fun e => negb (fst e =? w)) l.

Definition ustep (s : usys) (e : uev) : usys :=
  match e with
  | UAccept w n cl => mk_usys (d_set n [] (u_dir s)) ((w, (n, cl)) :: u_live s)
  | UWrite w c => match w_lookup w (u_live s) with
                  | Some (n, _) => mk_usys (d_set n c (u_dir s)) (u_live s)
                  | None => s
                  end
  | UDone w => mk_usys (u_dir s) (w_del w (u_live s))
  | UFail w => match w_lookup w (u_live s) with
               | Some (n, cl) => mk_usys (if cl then d_del n (u_dir s) else u_dir s) (w_del w (u_live s))
               | None => s
               end
  end.

Definition urun (s : usys) (h : list uev) : usys := fold_left ustep h s.

(** Events of history [h] that concern name [n], given who is live. *)
Definition touches (n : bytes) (s : usys) (e : uev) : bool :=
  match e with
  | UAccept _ m _ => bytes_eqb m n
  | UWrite w _ | UDone w | UFail w => match w_lookup w (u_live s) with Some (m, _) => bytes_eqb m n | None => false end
  end.
