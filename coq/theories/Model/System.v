(** Upload life cycles over one receive directory (C13): which file exists after any history of
    accepted uploads that complete or fail, possibly overlapping on one name.  The directory is
    an association list name -> content; a worker is accepted ([File::create]: the name then
    holds an empty file), completes (the name holds its content) or fails (clean-on-error:
    [remove_file] of whatever the name denotes at that moment). *)
From Tftp Require Import Base.Prelude.
Local Open Scope N_scope.

Definition dir := list (bytes * bytes).

Fixpoint d_lookup (n : bytes) (d : dir) : option bytes :=
  match d with [] => None | (m, c) :: r => if bytes_eqb m n then Some c else d_lookup n r end.
Fixpoint d_set (n c : bytes) (d : dir) : dir :=
  match d with [] => [(n, c)] | (m, x) :: r => if bytes_eqb m n then (m, c) :: r else (m, x) :: d_set n c r end.
Fixpoint d_del (n : bytes) (d : dir) : dir :=
  match d with [] => [] | (m, x) :: r => if bytes_eqb m n then r else (m, x) :: d_del n r end.

Inductive uev :=
| UAccept (w : N) (name : bytes) (clean : bool)   (* a write request is accepted, its worker creates the file *)
| UWrite (w : N) (content : bytes)                (* the worker flushes: the file holds [content] (a prefix of the upload) *)
| UDone (w : N)                                   (* the worker ends in success *)
| UFail (w : N).                                  (* the worker ends in failure *)

Record usys := mk_usys { u_dir : dir; u_live : list (N * (bytes * bool)) }.

Fixpoint w_lookup (w : N) (l : list (N * (bytes * bool))) : option (bytes * bool) :=
  match l with [] => None | (v, x) :: r => if v =? w then Some x else w_lookup w r end.
Definition w_del (w : N) (l : list (N * (bytes * bool))) := filter (fun e => negb (fst e =? w)) l.

Definition ustep (s : usys) (e : uev) : usys :=
  match e with
  | UAccept w n cl => mk_usys (d_set n [] (u_dir s)) ((w, (n, cl)) :: u_live s)
  | UWrite w c => match w_lookup w (u_live s) with
                  | Some (n, _) => mk_usys (d_set n c (u_dir s)) (u_live s)
                  | None => s
                  end
  | UDone w => mk_usys (u_dir s) (w_del w (u_live s))
  | UFail w => match w_lookup w (u_live s) with
               | Some (n, cl) => mk_usys (if cl then d_del n (u_dir s) else u_dir s) (w_del w (u_live s))
               | None => s
               end
  end.

Definition urun (s : usys) (h : list uev) : usys := fold_left ustep h s.

(** Events of history [h] that concern name [n], given who is live. *)
Definition touches (n : bytes) (s : usys) (e : uev) : bool :=
  match e with
  | UAccept _ m _ => bytes_eqb m n
  | UWrite w _ | UDone w | UFail w => match w_lookup w (u_live s) with Some (m, _) => bytes_eqb m n | None => false end
  end.

(** * The server as a system: listener + one worker per accepted request (C12) *)
From Tftp Require Import Model.Types Model.Consts Model.Codec Model.Window Model.Worker Model.Server.

Inductive wstate := WSend (c : scfg) (s : sstate) | WRecv (c : rcfg) (r : rstate).

(** A worker, keyed by the source address of its peer, with the datagrams waiting in its inbox
    (single-port: the channel fed by the listener; multi-port: its connected socket, on which
    the kernel delivers only datagrams of that peer). *)
Record sys := mk_sys { y_ls : lstate; y_ws : list (N * (wstate * list bytes)) }.

Inductive label :=
| LArrive (src : N) (raw : bytes)      (* a datagram from [src] reaches the listening port *)
| LArriveW (src : N) (raw : bytes)     (* multi-port: a datagram from [src] reaches the port of its own transfer *)
| LWork (src : N)                      (* the worker of [src] takes the next datagram from its inbox *)
| LTimeout (src : N).                  (* the worker of [src] times out on an empty inbox *)

Fixpoint y_get (src : N) (l : list (N * (wstate * list bytes))) : option (wstate * list bytes) :=
  match l with [] => None | (k, x) :: r => if k =? src then Some x else y_get src r end.
Fixpoint y_put (src : N) (x : wstate * list bytes) (l : list (N * (wstate * list bytes))) : list (N * (wstate * list bytes)) :=
  match l with [] => [(src, x)] | (k, y) :: r => if k =? src then (k, x) :: r else (k, y) :: y_put src x r end.

Definition tmo_ns (o : wopts) : N := wo_tmo_s o * 1000000000.

(** What one action of the listener does to the worker table; the datagrams it makes the server emit. *)
Definition apply_action (root : node) (src : N) (raw : bytes) (ws : list (N * (wstate * list bytes))) (a : action)
  : list (N * (wstate * list bytes)) * list (N * bytes) :=
  match a with
  | AReply _ p => (ws, [(src, encode p)])
  | ASpawnSend path o rep check =>
    match stat root path with
    | Some (NFile content) =>
      let cfg := mk_scfg (wo_blk o) (wo_ws o) (tmo_ns o) rep check [] in
      let '(s0, out0) := send_init cfg content in
      (y_put src (WSend cfg s0, []) ws, map (fun s => (src, encode (s_pk s))) out0)
    | _ => (ws, [])
    end
  | ASpawnRecv path o rep clean =>
    (y_put src (WRecv (mk_rcfg (wo_blk o) (wo_ws o) (tmo_ns o) rep clean []) (recv_init (mk_rcfg (wo_blk o) (wo_ws o) (tmo_ns o) rep clean [])), []) ws, [])
  | ARoute _ =>
    match y_get src ws with
    | Some (w, inbox) => (y_put src (w, inbox ++ [raw]) ws, [])
    | None => (ws, [])
    end
  end.

Fixpoint apply_actions (root : node) (src : N) (raw : bytes) (ws : list (N * (wstate * list bytes))) (acts : list action)
  : list (N * (wstate * list bytes)) * list (N * bytes) :=
  match acts with
  | [] => (ws, [])
  | a :: r => let '(ws1, o1) := apply_action root src raw ws a in
              let '(ws2, o2) := apply_actions root src raw ws1 r in (ws2, o1 ++ o2)
  end.

Definition work (w : wstate) (e : ev) (src : N) : wstate * list (N * bytes) :=
  match w with
  | WSend c s => let '(s', out) := send_step c s e in (WSend c s', map (fun x => (src, encode (s_pk x))) out)
  | WRecv c r => let '(r', out) := recv_step c r e in (WRecv c r', map (fun x => (src, encode (s_pk (a_sent x)))) out)
  end.

Definition wtimeout (w : wstate) : N := match w with WSend c _ => s_tmo c | WRecv c _ => r_tmo c end.

Definition sys_step (cfg : srvcfg) (mem : N) (root : node) (y : sys) (l : label) : sys * list (N * bytes) :=
  match l with
  | LArrive src raw =>
    match listen_step cfg mem root (y_ls y) src raw with
    | Ok (ls', acts) => let '(ws', out) := apply_actions root src raw (y_ws y) acts in (mk_sys ls' ws', out)
    | _ => (y, [])
    end
  | LArriveW src raw =>
    match y_get src (y_ws y) with
    | Some (w, inbox) => (mk_sys (y_ls y) (y_put src (w, inbox ++ [raw]) (y_ws y)), [])
    | None => (y, [])
    end
  | LWork src =>
    match y_get src (y_ws y) with
    | Some (w, raw :: inbox) => let '(w', out) := work w (EvDgram 0 raw) src in (mk_sys (y_ls y) (y_put src (w', inbox) (y_ws y)), out)
    | _ => (y, [])
    end
  | LTimeout src =>
    match y_get src (y_ws y) with
    | Some (w, []) => let '(w', out) := work w (EvFail (wtimeout w)) src in (mk_sys (y_ls y) (y_put src (w', []) (y_ws y)), out)
    | _ => (y, [])
    end
  end.

Definition label_src (l : label) : N :=
  match l with LArrive s _ | LArriveW s _ | LWork s | LTimeout s => s end.
