(** [Window]: a deque of chunks over one [File] (window.rs).

    The file object is modelled by what the kernel keeps for one open file
    description as far as this code can observe it:
    - [f_rest]: the bytes from the current read offset to the end of file;
    - [f_written]: the chunks written through this handle, most recent first;
    - [f_mode]: read-only ([File::open]), write-only ([File::create]: truncated at
      open, sequential writes) or read+append ([OpenOptions::read.append]: every
      write goes to the end and leaves the offset at the end, so a later read
      returns 0 bytes; [write_all] of an empty piece makes no system call at all).
    OS contract (trusted): [read] on a regular file is short only at end of file;
    [write_all] writes everything or fails. *)
From Tftp Require Import Base.Prelude.
Local Open Scope N_scope.

Inductive fmode := FRead | FWrite | FReadAppend.

Record file := mk_file { f_mode : fmode; f_rest : bytes; f_written : list bytes }.

Definition file_for_read (content : bytes) : file := mk_file FRead content [].
Definition file_created : file := mk_file FWrite [] [].

(** Bytes appended through the handle, in file order. *)
Definition written_bytes (f : file) : bytes := concat (rev (f_written f)).

Inductive werr := WIo | WRemove | WAdd.
Inductive wres (A : Type) := WOk (a : A) | WErr (e : werr).
Arguments WOk {A} a.
Arguments WErr {A} e.

Record window := mk_window { w_elems : list bytes; w_size : N; w_chunk : N; w_file : file }.

Definition window_new (size chunk : N) (f : file) : window := mk_window [] size chunk f.

(** [self.elements.len() as u16] *)
Definition w_len (w : window) : N := lenN (w_elems w) mod 65536.
Definition w_is_empty (w : window) : bool := match w_elems w with [] => true | _ => false end.
Definition w_is_full (w : window) : bool := w_len w =? w_size w.

(** [n] turns of the loop in [fill]: read a chunk; a short one ends the loop with [false]. *)
Fixpoint read_chunks (n : nat) (chunk : N) (rest : bytes) : list bytes * bytes * bool :=
  match n with
  | O => ([], rest, true)
  | S n' =>
    let c := takeN chunk rest in
    let rest' := dropN chunk rest in
    if lenN c =? chunk then
      let '(cs, r, full) := read_chunks n' chunk rest' in (c :: cs, r, full)
    else ([c], rest', false)
  end.

(** [Window::fill]: [for _ in self.len()..self.size]. *)
Definition fill (w : window) : wres (window * bool) :=
  let n := N.to_nat (w_size w - w_len w) in
  match f_mode (w_file w) with
  | FWrite => match n with
              | O => WOk (w, true)
              | S _ => WErr WIo (* read on a write-only descriptor *)
              end
  | _ =>
    let '(cs, rest', full) := read_chunks n (w_chunk w) (f_rest (w_file w)) in
    WOk (mk_window (w_elems w ++ cs) (w_size w) (w_chunk w)
                   (mk_file (f_mode (w_file w)) rest' (f_written (w_file w))), full)
  end.

Definition all_nil (l : list bytes) : bool := forallb (fun c => match c with [] => true | _ => false end) l.

(** [Window::empty]: write every chunk, then clear. *)
Definition empty (w : window) : wres window :=
  match w_elems w with
  | [] => WOk w
  | _ =>
    match f_mode (w_file w) with
    | FRead =>
      (* write on a read-only descriptor fails - but [write_all] of an empty piece makes no system call *)
      if all_nil (w_elems w) then WOk (mk_window [] (w_size w) (w_chunk w) (w_file w)) else WErr WIo
    | FWrite =>
      WOk (mk_window [] (w_size w) (w_chunk w)
             (mk_file FWrite (f_rest (w_file w)) (rev (w_elems w) ++ f_written (w_file w))))
    | FReadAppend =>
      WOk (mk_window [] (w_size w) (w_chunk w)
             (mk_file FReadAppend (if all_nil (w_elems w) then f_rest (w_file w) else [])
                      (rev (w_elems w) ++ f_written (w_file w))))
    end
  end.

(** [Window::remove(amount)] *)
Definition remove (w : window) (amount : N) : wres window :=
  if w_len w <? amount then WErr WRemove
  else WOk (mk_window (dropN amount (w_elems w)) (w_size w) (w_chunk w) (w_file w)).

(** [Window::add(data)] *)
Definition add (w : window) (d : bytes) : wres window :=
  if w_len w =? w_size w then WErr WAdd
  else WOk (mk_window (w_elems w ++ [d]) (w_size w) (w_chunk w) (w_file w)).

(** ** The public API as an operation machine (suite WIN, property C18) *)

Inductive wop := OpFill | OpEmpty | OpRemove (k : N) | OpAdd (d : bytes).

Inductive wobs :=
| ObsFill (full : bool) | ObsUnit | ObsErr (e : werr).

Definition wstep (w : window) (o : wop) : window * wobs :=
  match o with
  | OpFill => match fill w with WOk (w', b) => (w', ObsFill b) | WErr e => (w, ObsErr e) end
  | OpEmpty => match empty w with WOk w' => (w', ObsUnit) | WErr e => (w, ObsErr e) end
  | OpRemove k => match remove w k with WOk w' => (w', ObsUnit) | WErr e => (w, ObsErr e) end
  | OpAdd d => match add w d with WOk w' => (w', ObsUnit) | WErr e => (w, ObsErr e) end
  end.

Fixpoint wrun (w : window) (ops : list wop) : window * list wobs :=
  match ops with
  | [] => (w, [])
  | o :: r => let '(w1, ob) := wstep w o in
              let '(w2, obs) := wrun w1 r in (w2, ob :: obs)
  end.
