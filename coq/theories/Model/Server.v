(** The listener of server.rs: path conversion / validation, option parsing, the dispatch of
    one datagram ([Server::listen] body), and a small POSIX file-system model for what the
    handlers and workers do to the served directories (no symbolic links; Unix branch). *)
From Tftp Require Import Base.Prelude Base.Utf8 Base.Decimal Model.Types Model.Consts Model.Codec Model.Window Model.Worker.
Local Open Scope N_scope.

Definition slash : N := 47.
Definition backslash : N := 92.
Definition dotc : N := 46.

(** * Paths (std::path on Unix) *)

(** [convert_file_path]: leading '/' and '\' trimmed, '\' -> '/'. *)
Fixpoint trim_leading_seps (s : bytes) : bytes :=
  match s with
  | c :: r => if (c =? slash) || (c =? backslash) then trim_leading_seps r else s
  | [] => []
  end.
Definition convert_file_path (s : bytes) : bytes :=
  map (fun c => if c =? backslash then slash else c) (trim_leading_seps s).

Definition is_absolute (p : bytes) : bool := match p with c :: _ => c =? slash | [] => false end.
Definition ends_with_slash (p : bytes) : bool := match rev p with c :: _ => c =? slash | [] => false end.

(** [PathBuf::join] / [push]. *)
Definition join (dir name : bytes) : bytes :=
  if is_absolute name then name
  else if match dir with [] => true | _ => false end then name
  else if ends_with_slash dir then dir ++ name
  else dir ++ slash :: name.

(** [s.contains("..")] *)
Fixpoint has_dotdot (s : bytes) : bool :=
  match s with
  | a :: ((b :: _) as r) => ((a =? dotc) && (b =? dotc)) || has_dotdot r
  | _ => false
  end.

(** Split at '/' (empty segments kept). *)
Fixpoint split_slash (cur : bytes) (s : bytes) : list bytes :=
  match s with
  | [] => [rev cur]
  | c :: r => if c =? slash then rev cur :: split_slash [] r else split_slash (c :: cur) r
  end.

Definition is_dot (seg : bytes) : bool := match seg with [c] => c =? dotc | _ => false end.
Definition is_dotdot (seg : bytes) : bool := match seg with [a; b] => (a =? dotc) && (b =? dotc) | _ => false end.
Definition is_empty_seg (seg : bytes) : bool := match seg with [] => true | _ => false end.

(** [Path::components]: root flag and normal components; empty segments and "." are dropped,
    except a leading "." of a relative path ([CurDir]). *)
Record comps := mk_comps { cp_root : bool; cp_segs : list bytes }.

Definition components (p : bytes) : comps :=
  let segs := split_slash [] p in
  let root := is_absolute p in
  let keep := filter (fun s => negb (is_empty_seg s) && negb (is_dot s)) segs in
  let lead_dot := negb root && match segs with s :: _ => is_dot s | [] => false end in
  mk_comps root (if lead_dot then [dotc] :: keep else keep).

Fixpoint segs_eqb (a b : list bytes) : bool :=
  match a, b with
  | [], [] => true
  | x :: a', y :: b' => bytes_eqb x y && segs_eqb a' b'
  | _, _ => false
  end.

Fixpoint is_prefix_segs (a b : list bytes) : bool :=   (* a is a prefix of b *)
  match a, b with
  | [], _ => true
  | x :: a', y :: b' => bytes_eqb x y && is_prefix_segs a' b'
  | _ :: _, [] => false
  end.

(** [file.ancestors().any(|a| a == directory)] *)
Definition has_ancestor (file dir : bytes) : bool :=
  let f := components file in
  let d := components dir in
  Bool.eqb (cp_root f) (cp_root d) && is_prefix_segs (cp_segs d) (cp_segs f).

(** [validate_file_path] *)
Definition validate_file_path (file dir : bytes) : bool := negb (has_dotdot file) && has_ancestor file dir.

(** * File system (what the kernel does with a path string; no symbolic links) *)

Inductive node := NFile (content : bytes) | NDir (entries : list (bytes * node)).

Fixpoint lookup_entry (name : bytes) (es : list (bytes * node)) : option node :=
  match es with
  | [] => None
  | (n, x) :: r => if bytes_eqb n name then Some x else lookup_entry name r
  end.

(** Walk normal components (no ".", no "", no "..") from a directory node. *)
Fixpoint walk (nd : node) (segs : list bytes) : option node :=
  match segs with
  | [] => Some nd
  | s :: r => match nd with
              | NDir es => match lookup_entry s es with Some x => walk x r | None => None end
              | NFile _ => None
              end
  end.

(** The kernel's view of a dotdot-free path: the normal components, and whether the path
    demands a directory (trailing '/' or trailing "."). *)
Definition kernel_segs (p : bytes) : list bytes :=
  filter (fun s => negb (is_empty_seg s) && negb (is_dot s)) (split_slash [] p).
Definition wants_dir (p : bytes) : bool :=
  match rev (split_slash [] p) with
  | s :: _ => is_empty_seg s || is_dot s
  | [] => false
  end.

(** [ENAMETOOLONG]: a component longer than NAME_MAX = 255 bytes or a path of PATH_MAX = 4096 bytes or more. *)
Definition name_too_long (p : bytes) : bool :=
  (4096 <=? lenN p + 1) || existsb (fun s => 255 <? lenN s) (split_slash [] p).

(** [stat(path)] for an absolute dotdot-free path in the tree rooted at [root]. *)
Definition stat (root : node) (p : bytes) : option node :=
  if name_too_long p then None else
  match walk root (kernel_segs p) with
  | Some (NFile c) => if wants_dir p then None else Some (NFile c)
  | r => r
  end.

Inductive fkind := FkMissing | FkFile (size : N) | FkDir.
Definition kind_of (root : node) (p : bytes) : fkind :=
  match stat root p with
  | None => FkMissing
  | Some (NFile c) => FkFile (lenN c)
  | Some (NDir _) => FkDir
  end.

(** Replace / insert an entry. *)
Fixpoint set_entry (name : bytes) (x : node) (es : list (bytes * node)) : list (bytes * node) :=
  match es with
  | [] => [(name, x)]
  | (n, y) :: r => if bytes_eqb n name then (n, x) :: r else (n, y) :: set_entry name x r
  end.
Fixpoint del_entry (name : bytes) (es : list (bytes * node)) : list (bytes * node) :=
  match es with
  | [] => []
  | (n, y) :: r => if bytes_eqb n name then r else (n, y) :: del_entry name r
  end.

(** [open(path, O_WRONLY|O_CREAT|O_TRUNC)] followed by writing [content]: the new tree, or
    [None] when the open fails (missing parent, parent or target is a directory / not a directory,
    trailing slash). *)
Fixpoint write_file (nd : node) (segs : list bytes) (content : bytes) : option node :=
  match segs with
  | [] => None
  | [s] => match nd with
           | NDir es => match lookup_entry s es with
                        | Some (NDir _) => None
                        | _ => Some (NDir (set_entry s (NFile content) es))
                        end
           | NFile _ => None
           end
  | s :: r => match nd with
              | NDir es => match lookup_entry s es with
                           | Some x => match write_file x r content with
                                       | Some x' => Some (NDir (set_entry s x' es))
                                       | None => None
                                       end
                           | None => None
                           end
              | NFile _ => None
              end
  end.
Definition create_file (root : node) (p : bytes) (content : bytes) : option node :=
  if wants_dir p || name_too_long p then None else write_file root (kernel_segs p) content.

(** [unlink(path)] of a regular file. *)
Fixpoint remove_at (nd : node) (segs : list bytes) : option node :=
  match segs with
  | [] => None
  | [s] => match nd with
           | NDir es => match lookup_entry s es with
                        | Some (NFile _) => Some (NDir (del_entry s es))
                        | _ => None
                        end
           | NFile _ => None
           end
  | s :: r => match nd with
              | NDir es => match lookup_entry s es with
                           | Some x => match remove_at x r with
                                       | Some x' => Some (NDir (set_entry s x' es))
                                       | None => None
                                       end
                           | None => None
                           end
              | NFile _ => None
              end
  end.
Definition remove_file (root : node) (p : bytes) : node :=
  if wants_dir p || name_too_long p then root else match remove_at root (kernel_segs p) with Some r => r | None => root end.

(** * Options ([parse_options]) *)

Record wopts := mk_wopts { wo_blk : N; wo_tsize : N; wo_tmo_s : N; wo_ws : N }.

(** Returns the worker options and the option list as rewritten in place (tsize on reads),
    or [None] for an invalid value ("Invalid blksize / timeout / windowsize value"). *)
Fixpoint parse_options (os : list topt) (read_size : option N) (acc : wopts) : option (wopts * list topt) :=
  match os with
  | [] => Some (acc, [])
  | o :: r =>
    let continue_ acc' o' :=
      match parse_options r read_size acc' with
      | Some (w, os') => Some (w, o' :: os')
      | None => None
      end in
    match o_type o with
    | OBlkSize =>
      if (o_val o <? min_blk) || (max_blk <? o_val o) then None
      else continue_ (mk_wopts (o_val o) (wo_tsize acc) (wo_tmo_s acc) (wo_ws acc)) o
    | OTSize =>
      match read_size with
      | Some sz => continue_ (mk_wopts (wo_blk acc) sz (wo_tmo_s acc) (wo_ws acc)) (mk_opt OTSize sz)
      | None => continue_ (mk_wopts (wo_blk acc) (o_val o) (wo_tmo_s acc) (wo_ws acc)) o
      end
    | OTimeout =>
      if (o_val o =? 0) || (max_timeout_s <? o_val o) then None
      else continue_ (mk_wopts (wo_blk acc) (wo_tsize acc) (o_val o) (wo_ws acc)) o
    | OWindowSize =>
      if (o_val o =? 0) || (max_ws <? o_val o) then None
      else continue_ (mk_wopts (wo_blk acc) (wo_tsize acc) (wo_tmo_s acc) (o_val o)) o
    end
  end.

Definition default_wopts : wopts :=
  mk_wopts default_blk 0 (default_timeout_ns / 1000000000) default_ws.

(** * The listener *)

Record srvcfg := mk_srvcfg {
  v_single : bool; v_ro : bool; v_over : bool; v_clean : bool; v_dup : N;
  v_sdir : bytes; v_rdir : bytes }.

(** What handling one datagram makes the server do. *)
Inductive action :=
| AReply (from_listener : bool) (p : packet)            (* one datagram to the requester *)
| ASpawnSend (path : bytes) (o : wopts) (rep : N) (check : bool)
| ASpawnRecv (path : bytes) (o : wopts) (rep : N) (clean : bool)
| ARoute (p : packet).                                  (* handed to the worker that owns this source *)

Record lstate := mk_lstate { l_largest : N; l_clients : list N (* sources that own a live worker *) }.

Definition lstate_init : lstate := mk_lstate default_blk [].

Definition text (s : list N) : bytes := s.
Definition msg_not_found_pre : bytes := [102; 105; 108; 101; 32].                          (* "file " *)
Definition msg_not_found_post : bytes := [32; 100; 111; 101; 115; 32; 110; 111; 116; 32; 101; 120; 105; 115; 116]. (* " does not exist" *)
Definition msg_access_pre : bytes :=
  [102; 105; 108; 101; 32; 97; 99; 99; 101; 115; 115; 32; 118; 105; 111; 108; 97; 116; 105; 111; 110; 58; 32]. (* "file access violation: " *)
Definition msg_exists : bytes :=
  [114; 101; 113; 117; 101; 115; 116; 101; 100; 32; 102; 105; 108; 101; 32; 97; 108; 114; 101; 97; 100; 121; 32; 101; 120; 105; 115; 116; 115]. (* "requested file already exists" *)
Definition msg_read_only : bytes :=
  [115; 101; 114; 118; 101; 114; 32; 105; 115; 32; 114; 101; 97; 100; 45; 111; 110; 108; 121]. (* "server is read-only" *)
Definition msg_invalid_request : bytes :=
  [105; 110; 118; 97; 108; 105; 100; 32; 114; 101; 113; 117; 101; 115; 116]. (* "invalid request" *)

(** [check_file_exists] *)
Inductive fcheck := ChkViolation | ChkMissing | ChkExists (k : fkind).
Definition check_file_exists (root : node) (file dir : bytes) : fcheck :=
  if negb (validate_file_path file dir) then ChkViolation
  else match kind_of root file with
       | FkMissing => ChkMissing
       | k => ChkExists k
       end.

(** Socket creation and [accept_request], common to both handlers. *)
Definition accept (cfg : srvcfg) (st : lstate) (src : N) (o : wopts) (os' : list topt) (is_write : bool)
  : lstate * list action :=
  let st' := if v_single cfg then mk_lstate (N.max (l_largest st) (wo_blk o)) (src :: l_clients st) else st in
  let first :=
    match os' with
    | _ :: _ => [AReply (v_single cfg) (Oack os')]
    | [] => if is_write then [AReply (v_single cfg) (Ack 0)] else []
    end in
  (st', first).

Definition handle_rrq (cfg : srvcfg) (root : node) (st : lstate) (src : N) (name : bytes) (os : list topt)
  : lstate * list action :=
  let path := join (v_sdir cfg) (convert_file_path name) in
  match check_file_exists root path (v_sdir cfg) with
  | ChkMissing => (st, [AReply true (Error EFileNotFound (msg_not_found_pre ++ path ++ msg_not_found_post))])
  | ChkViolation => (st, [AReply true (Error EAccessViolation (msg_access_pre ++ path))])
  | ChkExists k =>
    let size := match k with FkFile n => n | _ => 0 end in
    match parse_options os (Some size) default_wopts with
    | None => (st, [])
    | Some (o, os') =>
      let '(st', first) := accept cfg st src o os' false in
      (st', first ++ [ASpawnSend path o (v_dup cfg + 1) (match os' with [] => false | _ => true end)])
    end
  end.

Definition handle_wrq (cfg : srvcfg) (root : node) (st : lstate) (src : N) (name : bytes) (os : list topt)
  : lstate * list action :=
  let path := join (v_rdir cfg) (convert_file_path name) in
  let init :=
    match parse_options os None default_wopts with
    | None => (st, [])
    | Some (o, os') =>
      let '(st', first) := accept cfg st src o os' true in
      (st', first ++ [ASpawnRecv path o (v_dup cfg + 1) (v_clean cfg)])
    end in
  match check_file_exists root path (v_rdir cfg) with
  | ChkExists _ => if v_over cfg then init else (st, [AReply true (Error EFileExists msg_exists)])
  | ChkViolation => (st, [AReply true (Error EAccessViolation (msg_access_pre ++ path))])
  | ChkMissing => init
  end.

(** One turn of [Server::listen]: receive into a buffer of [largest + 4] (single-port) or
    516 bytes, decode, dispatch.  Allocation of the buffer is explicit: [Panic] on capacity
    overflow (more than [isize::MAX] bytes), [Abort] when it exceeds [mem]. *)
Definition isize_max : N := 9223372036854775807.

Definition listen_step (cfg : srvcfg) (mem : N) (root : node) (st : lstate) (src : N) (raw : bytes)
  : res (lstate * list action) :=
  let size := if v_single cfg then l_largest st else max_request_packet_size in
  if isize_max <? size + 4 then Panic
  else if mem <? size + 4 then Abort
  else
    match decode (takeN (size + 4) raw) with
    | Panic => Panic
    | Abort => Abort
    | Err _ => Ok (st, [])
    | Ok (Rrq name _ os) => Ok (handle_rrq cfg root st src name os)
    | Ok (Wrq name _ os) =>
      if v_ro cfg then Ok (st, [AReply true (Error EAccessViolation msg_read_only)])
      else Ok (handle_wrq cfg root st src name os)
    | Ok p =>
      if v_single cfg && memN src (l_clients st) then Ok (st, [ARoute p])
      else Ok (st, [AReply true (Error EIllegalOperation msg_invalid_request)])
    end.

(** A worker that ended no longer owns its source: routing to it fails ("invalid request"). *)
Definition worker_ended (st : lstate) (src : N) : lstate :=
  mk_lstate (l_largest st) (filter (fun a => negb (a =? src)) (l_clients st)).

(** * A conformant, loss-free peer for an accepted request (closed system, used by SRV / CLI) *)

Definition ack_dgram (n : N) : bytes := encode (Ack (n mod 65536)).
Definition data_dgram (blk : N) (F : bytes) (k : N) : bytes :=
  encode (Data (k mod 65536) (takeN blk (dropN ((k - 1) * blk) F))).

(** ACKs of a lock-step client that acknowledges every full window and the final block. *)
Fixpoint ideal_acks (fuel : nat) (ws nblk acked : N) : list ev :=
  match fuel with
  | O => []
  | S f => if nblk <=? acked then []
           else let hi := N.min (acked + ws) nblk in EvDgram 0 (ack_dgram hi) :: ideal_acks f ws nblk hi
  end.

(** DATA datagrams 1..nblk of an uploading client. *)
Fixpoint ideal_datas (blk : N) (F : bytes) (k : N) (n : nat) : list ev :=
  match n with
  | O => []
  | S n' => EvDgram 0 (data_dgram blk F k) :: ideal_datas blk F (k + 1) n'
  end.

Definition nblocks_of (blk : N) (F : bytes) : N := lenN F / blk + 1.

(** The download a spawned sender performs against that client: all DATA payloads, and the outcome. *)
Definition run_download (o : wopts) (rep : N) (check : bool) (F : bytes) : list (N * bytes) * sphase :=
  let cfg := mk_scfg (wo_blk o) (wo_ws o) (wo_tmo_s o * 1000000000) rep check [] in
  let nb := nblocks_of (wo_blk o) F in
  let evs := (if check then [EvDgram 0 (ack_dgram 0)] else []) ++ ideal_acks (S (N.to_nat nb)) (wo_ws o) nb 0 in
  let '(st, outs) := run_send cfg F evs in
  (flat_map (fun s => match s_pk s with Data n p => [(n, p)] | _ => [] end) (concat outs), s_phase st).

(** The upload a spawned receiver performs against a client sending [F]: the stored file, the
    ACKs, the outcome. *)
Definition run_upload (o : wopts) (rep : N) (clean : bool) (F : bytes) : option bytes * list N * rphase :=
  let cfg := mk_rcfg (wo_blk o) (wo_ws o) (wo_tmo_s o * 1000000000) rep clean [] in
  let nb := nblocks_of (wo_blk o) F in
  let '(st, outs) := run_recv cfg (ideal_datas (wo_blk o) F 1 (N.to_nat nb)) in
  (match recv_final_file cfg st with Some w => Some (concat (rev w)) | None => None end,
   flat_map (fun a => match s_pk (a_sent a) with Ack n => [n] | _ => [] end) (concat outs),
   r_phase st).
