(** Specification vocabulary shared by the worker theorems: blocks of a file,
    the property's own notion of "blocks accepted in sequence", the reference
    (RFC 1350) client used as conformant peer. *)
From Tftp Require Import Base.Prelude Model.Types Model.Consts Model.Codec Model.Window Model.Worker.
Local Open Scope N_scope.

(** Block [k] (numbered from 1) of file [F] for block size [blk]. *)
Definition chunk (blk : N) (F : bytes) (k : N) : bytes := takeN blk (dropN ((k - 1) * blk) F).

(** Number of blocks of the transfer of [F]: the last one is the first shorter than
    [blk] (empty when the size is an exact multiple). *)
Definition nblk (blk : N) (F : bytes) : N := lenN F / blk + 1.

(** Blocks [a, a+n) in order. *)
Fixpoint chunks_from (blk : N) (F : bytes) (a : N) (n : nat) : list bytes :=
  match n with
  | O => []
  | S n' => chunk blk F a :: chunks_from blk F (a + 1) n'
  end.

(** One transmission of a window whose front is block [a]: every block [rep] times,
    numbered modulo 65536. *)
Fixpoint window_tx (rep : nat) (a : N) (cs : list bytes) : list sent :=
  match cs with
  | [] => []
  | c :: r => repeat (mk_sent (Data (a mod 65536) c) false) rep ++ window_tx rep (a + 1) r
  end.

(** The property's words for the receiving side: going through the arrivals with a
    counter [c] of blocks accepted so far, an arrival is accepted iff it decodes
    (after the socket buffer cut it to [blk + 4] bytes) to DATA numbered
    [(c + 1) mod 65536]; nothing is accepted after the first short block. *)
Fixpoint accepted (blk c : N) (evs : list ev) : list bytes :=
  match evs with
  | [] => []
  | e :: r =>
    match receive blk e with
    | RPacket (Data n p) =>
      if n =? (c + 1) mod 65536 then
        p :: (if lenN p <? blk then [] else accepted blk (c + 1) r)
      else accepted blk c r
    | _ => accepted blk c r
    end
  end.

(** Reference client of RFC 1350 reassembling in-order blocks: [e] is the block it
    expects next; it accepts DATA numbered [e mod 65536], appends the payload and is
    done after a payload shorter than [blk].  Returns the bytes assembled and
    whether it completed. *)
Fixpoint ref_client (blk e : N) (acc : bytes) (arrivals : list (N * bytes)) : bytes * bool :=
  match arrivals with
  | [] => (acc, false)
  | (n, p) :: r =>
    if n =? e mod 65536 then
      if lenN p <? blk then (acc ++ p, true) else ref_client blk (e + 1) (acc ++ p) r
    else ref_client blk e acc r
  end.

(** Well-formed worker parameters (what [parse_options] lets through, or the defaults). *)
Definition wf_params (blk ws : N) : Prop := 0 < blk /\ 1 <= ws <= 65535.

Definition data_packets (l : list sent) : list (N * bytes) :=
  flat_map (fun s => match s_pk s with Data n p => [(n, p)] | _ => [] end) l.
