(** Command-line parsers: [Config::new] (config.rs) and [ClientConfig::new] (client_config.rs).

    Oracles (Section variables; std / OS behaviour that is trusted, not modelled):
    - [exists_ : bytes -> bool]   [Path::new(s).exists()]
    - [parse_ip : bytes -> option bytes]   [s.parse::<IpAddr>()], result in canonical display form
    - [cwd : bytes]   [env::current_dir()] *)
From Tftp Require Import Base.Prelude Base.Decimal Model.Types Model.Consts.
Local Open Scope N_scope.

Definition str (s : list N) : bytes := s.

(* flag spellings, as ASCII codes *)
Definition s_i : bytes := [45; 105].                                   (* -i *)
Definition s_ip_address : bytes := [45; 45; 105; 112; 45; 97; 100; 100; 114; 101; 115; 115]. (* --ip-address *)
Definition s_p : bytes := [45; 112].                                   (* -p *)
Definition s_port : bytes := [45; 45; 112; 111; 114; 116].             (* --port *)
Definition s_d : bytes := [45; 100].                                   (* -d *)
Definition s_directory : bytes := [45; 45; 100; 105; 114; 101; 99; 116; 111; 114; 121]. (* --directory *)
Definition s_rd : bytes := [45; 114; 100].                             (* -rd *)
Definition s_receive_directory : bytes :=
  [45; 45; 114; 101; 99; 101; 105; 118; 101; 45; 100; 105; 114; 101; 99; 116; 111; 114; 121]. (* --receive-directory *)
Definition s_sd : bytes := [45; 115; 100].                             (* -sd *)
Definition s_send_directory : bytes :=
  [45; 45; 115; 101; 110; 100; 45; 100; 105; 114; 101; 99; 116; 111; 114; 121]. (* --send-directory *)
Definition s_s : bytes := [45; 115].                                   (* -s *)
Definition s_single_port : bytes := [45; 45; 115; 105; 110; 103; 108; 101; 45; 112; 111; 114; 116]. (* --single-port *)
Definition s_r : bytes := [45; 114].                                   (* -r *)
Definition s_read_only : bytes := [45; 45; 114; 101; 97; 100; 45; 111; 110; 108; 121]. (* --read-only *)
Definition s_h : bytes := [45; 104].                                   (* -h *)
Definition s_help : bytes := [45; 45; 104; 101; 108; 112].             (* --help *)
Definition s_duplicate_packets : bytes :=
  [45; 45; 100; 117; 112; 108; 105; 99; 97; 116; 101; 45; 112; 97; 99; 107; 101; 116; 115]. (* --duplicate-packets *)
Definition s_overwrite : bytes := [45; 45; 111; 118; 101; 114; 119; 114; 105; 116; 101]. (* --overwrite *)
Definition s_keep_on_error : bytes :=
  [45; 45; 107; 101; 101; 112; 45; 111; 110; 45; 101; 114; 114; 111; 114]. (* --keep-on-error *)
(* client only *)
Definition s_b : bytes := [45; 98].
Definition s_blocksize : bytes := [45; 45; 98; 108; 111; 99; 107; 115; 105; 122; 101]. (* --blocksize *)
Definition s_w : bytes := [45; 119].
Definition s_windowsize : bytes := [45; 45; 119; 105; 110; 100; 111; 119; 115; 105; 122; 101]. (* --windowsize *)
Definition s_t : bytes := [45; 116].
Definition s_timeout : bytes := [45; 45; 116; 105; 109; 101; 111; 117; 116]. (* --timeout *)
Definition s_u : bytes := [45; 117].
Definition s_upload : bytes := [45; 45; 117; 112; 108; 111; 97; 100]. (* --upload *)
Definition s_download : bytes := [45; 45; 100; 111; 119; 110; 108; 111; 97; 100]. (* --download *)

Definition is (a b : bytes) : bool := bytes_eqb a b.

(** * Server *)

Inductive sflag :=
| FIp | FPort | FDir | FRd | FSd | FSingle | FRo | FHelp | FDup | FOver | FKeep | FUnknown.

Definition sflag_of (a : bytes) : sflag :=
  if is a s_i || is a s_ip_address then FIp
  else if is a s_p || is a s_port then FPort
  else if is a s_d || is a s_directory then FDir
  else if is a s_rd || is a s_receive_directory then FRd
  else if is a s_sd || is a s_send_directory then FSd
  else if is a s_s || is a s_single_port then FSingle
  else if is a s_r || is a s_read_only then FRo
  else if is a s_h || is a s_help then FHelp
  else if is a s_duplicate_packets then FDup
  else if is a s_overwrite then FOver
  else if is a s_keep_on_error then FKeep
  else FUnknown.

Record config := mk_config {
  c_ip : bytes; c_port : N; c_dir : bytes; c_rdir : bytes; c_sdir : bytes;
  c_single : bool; c_ro : bool; c_dup : N; c_over : bool; c_clean : bool }.

Inductive cerr := CMissing | CBadIp | CBadPort | CNoDir | CBadDup | CDupMax | CInvalidFlag
                | CBadBlk | CBadWs | CBadTimeout.

Inductive cres (A : Type) := COk (c : A) | CErr (e : cerr) | CHelp.
Arguments COk {A} c.
Arguments CErr {A} e.
Arguments CHelp {A}.

(** The canonical display form of [Ipv4Addr::LOCALHOST] (generated: [cfg_default_ip] = 127.0.0.1). *)
Definition dot : N := 46.
Fixpoint ip_text (l : list N) : bytes :=
  match l with
  | [] => []
  | [x] => to_dec x
  | x :: r => to_dec x ++ dot :: ip_text r
  end.

Section Parsers.
  Variable exists_ : bytes -> bool.
  Variable parse_ip : bytes -> option bytes.
  Variable cwd : bytes.

  Definition default_config : config :=
    mk_config (ip_text cfg_default_ip) cfg_default_port cwd [] [] false false 0 false cfg_default_clean.

  (** The two fall-backs after the loop. *)
  Definition finish (c : config) : config :=
    mk_config (c_ip c) (c_port c) (c_dir c)
              (match c_rdir c with [] => c_dir c | _ => c_rdir c end)
              (match c_sdir c with [] => c_dir c | _ => c_sdir c end)
              (c_single c) (c_ro c) (c_dup c) (c_over c) (c_clean c).

  Definition set_ip c v := mk_config v (c_port c) (c_dir c) (c_rdir c) (c_sdir c) (c_single c) (c_ro c) (c_dup c) (c_over c) (c_clean c).
  Definition set_port c v := mk_config (c_ip c) v (c_dir c) (c_rdir c) (c_sdir c) (c_single c) (c_ro c) (c_dup c) (c_over c) (c_clean c).
  Definition set_dir c v := mk_config (c_ip c) (c_port c) v (c_rdir c) (c_sdir c) (c_single c) (c_ro c) (c_dup c) (c_over c) (c_clean c).
  Definition set_rdir c v := mk_config (c_ip c) (c_port c) (c_dir c) v (c_sdir c) (c_single c) (c_ro c) (c_dup c) (c_over c) (c_clean c).
  Definition set_sdir c v := mk_config (c_ip c) (c_port c) (c_dir c) (c_rdir c) v (c_single c) (c_ro c) (c_dup c) (c_over c) (c_clean c).
  Definition set_single c := mk_config (c_ip c) (c_port c) (c_dir c) (c_rdir c) (c_sdir c) true (c_ro c) (c_dup c) (c_over c) (c_clean c).
  Definition set_ro c := mk_config (c_ip c) (c_port c) (c_dir c) (c_rdir c) (c_sdir c) (c_single c) true (c_dup c) (c_over c) (c_clean c).
  Definition set_dup c v := mk_config (c_ip c) (c_port c) (c_dir c) (c_rdir c) (c_sdir c) (c_single c) (c_ro c) v (c_over c) (c_clean c).
  Definition set_over c := mk_config (c_ip c) (c_port c) (c_dir c) (c_rdir c) (c_sdir c) (c_single c) (c_ro c) (c_dup c) true (c_clean c).
  Definition set_keep c := mk_config (c_ip c) (c_port c) (c_dir c) (c_rdir c) (c_sdir c) (c_single c) (c_ro c) (c_dup c) (c_over c) false.

  (** [while let Some(arg) = args.next() { match arg.as_str() { .. } }] *)
  Fixpoint parse_loop (c : config) (args : list bytes) : cres config :=
    match args with
    | [] => COk (finish c)
    | a :: r =>
      match sflag_of a with
      | FIp => match r with
               | v :: r' => match parse_ip v with Some ip => parse_loop (set_ip c ip) r' | None => CErr CBadIp end
               | [] => CErr CMissing
               end
      | FPort => match r with
                 | v :: r' => match parse_bounded 65536 v with Some p => parse_loop (set_port c p) r' | None => CErr CBadPort end
                 | [] => CErr CMissing
                 end
      | FDir => match r with
                | v :: r' => if exists_ v then parse_loop (set_dir c v) r' else CErr CNoDir
                | [] => CErr CMissing
                end
      | FRd => match r with
               | v :: r' => if exists_ v then parse_loop (set_rdir c v) r' else CErr CNoDir
               | [] => CErr CMissing
               end
      | FSd => match r with
               | v :: r' => if exists_ v then parse_loop (set_sdir c v) r' else CErr CNoDir
               | [] => CErr CMissing
               end
      | FSingle => parse_loop (set_single c) r
      | FRo => parse_loop (set_ro c) r
      | FHelp => CHelp
      | FDup => match r with
                | v :: r' => match parse_bounded 256 v with
                             | Some d => if d =? dup_reject then CErr CDupMax else parse_loop (set_dup c d) r'
                             | None => CErr CBadDup
                             end
                | [] => CErr CMissing
                end
      | FOver => parse_loop (set_over c) r
      | FKeep => parse_loop (set_keep c) r
      | FUnknown => CErr CInvalidFlag
      end
    end.

  (** [Config::new(args)]: [args.next()] skips the program name. *)
  Definition parse_args (argv : list bytes) : cres config :=
    parse_loop default_config (match argv with [] => [] | _ :: r => r end).

  (** * Client *)

  Inductive cflag := KIp | KPort | KBlk | KWs | KTmo | KRd | KUp | KDown | KKeep | KHelp | KFile.

  Definition cflag_of (a : bytes) : cflag :=
    if is a s_i || is a s_ip_address then KIp
    else if is a s_p || is a s_port then KPort
    else if is a s_b || is a s_blocksize then KBlk
    else if is a s_w || is a s_windowsize then KWs
    else if is a s_t || is a s_timeout then KTmo
    else if is a s_rd || is a s_receive_directory then KRd
    else if is a s_u || is a s_upload then KUp
    else if is a s_d || is a s_download then KDown
    else if is a s_keep_on_error then KKeep
    else if is a s_h || is a s_help then KHelp
    else KFile.

  Record cconfig := mk_cconfig {
    k_ip : bytes; k_port : N; k_blk : N; k_ws : N; k_tmo : N (* s *); k_upload : bool;
    k_rdir : bytes; k_file : bytes; k_clean : bool }.

  (** [convert_file_path] (server.rs), Unix branch: leading '/' and '\' trimmed, '\' -> '/'. *)
  Fixpoint trim_seps (s : bytes) : bytes :=
    match s with
    | c :: r => if (c =? 47) || (c =? 92) then trim_seps r else s
    | [] => []
    end.
  Definition convert_path (s : bytes) : bytes := map (fun c => if c =? 92 then 47 else c) (trim_seps s).

  Definition default_cconfig : cconfig :=
    mk_cconfig (ip_text cfg_default_ip) ccfg_default_port client_default_blk client_default_ws
               (client_default_timeout_ns / 1000000000) false [] [] ccfg_default_clean.

  Fixpoint cparse_loop (c : cconfig) (args : list bytes) : cres cconfig :=
    match args with
    | [] => COk c
    | a :: r =>
      let upd ip port blk ws tmo up rd file clean := mk_cconfig ip port blk ws tmo up rd file clean in
      match cflag_of a with
      | KIp => match r with
               | v :: r' => match parse_ip v with
                            | Some ip => cparse_loop (upd ip (k_port c) (k_blk c) (k_ws c) (k_tmo c) (k_upload c) (k_rdir c) (k_file c) (k_clean c)) r'
                            | None => CErr CBadIp end
               | [] => CErr CMissing end
      | KPort => match r with
                 | v :: r' => match parse_bounded 65536 v with
                              | Some p => cparse_loop (upd (k_ip c) p (k_blk c) (k_ws c) (k_tmo c) (k_upload c) (k_rdir c) (k_file c) (k_clean c)) r'
                              | None => CErr CBadPort end
                 | [] => CErr CMissing end
      | KBlk => match r with
                | v :: r' => match parse_usize v with
                             | Some p => cparse_loop (upd (k_ip c) (k_port c) p (k_ws c) (k_tmo c) (k_upload c) (k_rdir c) (k_file c) (k_clean c)) r'
                             | None => CErr CBadBlk end
                | [] => CErr CMissing end
      | KWs => match r with
               | v :: r' => match parse_bounded 65536 v with
                            | Some p => cparse_loop (upd (k_ip c) (k_port c) (k_blk c) p (k_tmo c) (k_upload c) (k_rdir c) (k_file c) (k_clean c)) r'
                            | None => CErr CBadWs end
               | [] => CErr CMissing end
      | KTmo => match r with
                | v :: r' => match parse_usize v with
                             | Some p => cparse_loop (upd (k_ip c) (k_port c) (k_blk c) (k_ws c) p (k_upload c) (k_rdir c) (k_file c) (k_clean c)) r'
                             | None => CErr CBadTimeout end
                | [] => CErr CMissing end
      | KRd => match r with
               | v :: r' => if exists_ v
                            then cparse_loop (upd (k_ip c) (k_port c) (k_blk c) (k_ws c) (k_tmo c) (k_upload c) v (k_file c) (k_clean c)) r'
                            else CErr CNoDir
               | [] => CErr CMissing end
      | KUp => cparse_loop (upd (k_ip c) (k_port c) (k_blk c) (k_ws c) (k_tmo c) true (k_rdir c) (k_file c) (k_clean c)) r
      | KDown => cparse_loop (upd (k_ip c) (k_port c) (k_blk c) (k_ws c) (k_tmo c) false (k_rdir c) (k_file c) (k_clean c)) r
      | KKeep => cparse_loop (upd (k_ip c) (k_port c) (k_blk c) (k_ws c) (k_tmo c) (k_upload c) (k_rdir c) (k_file c) false) r
      | KHelp => CHelp
      | KFile => cparse_loop (upd (k_ip c) (k_port c) (k_blk c) (k_ws c) (k_tmo c) (k_upload c) (k_rdir c) (convert_path a) (k_clean c)) r
      end
    end.

  (** [ClientConfig::new(args)]: no program name is skipped. *)
  Definition parse_client_args (argv : list bytes) : cres cconfig := cparse_loop default_cconfig argv.
End Parsers.
